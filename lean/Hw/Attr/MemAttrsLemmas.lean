import Hw.Attr.MemAttrs
/-
  Hw.Attr.MemAttrsLemmas — proofs about the model in Hw.Attr.MemAttrs (core Lean only).
-/
namespace Hw.MemAttrs

/-! ## generic helpers -/

theorem foldl_inv {σ β : Type} (P : σ → Prop) (f : σ → β → σ) (l : List β) (s : σ)
    (hs : P s) (hf : ∀ s x, x ∈ l → P s → P (f s x)) : P (l.foldl f s) := by
  induction l generalizing s with
  | nil => exact hs
  | cons x xs ih =>
    simp only [List.foldl_cons]
    apply ih
    · exact hf s x (List.mem_cons_self) hs
    · intro s' y hy hP
      exact hf s' y (List.mem_cons_of_mem _ hy) hP

/-! ## A. best-of -/

/-- accumulator invariant of the best-of fold started from `some b` -/
theorem foldl_bestStep_some {α : Type} (h : Bool) (l : List (α × Nat)) (b : α × Nat) :
    ∃ r, l.foldl (bestStep h) (some b) = some r ∧
      (if h then b.2 ≤ r.2 else r.2 ≤ b.2) ∧
      (∀ x ∈ l, if h then x.2 ≤ r.2 else r.2 ≤ x.2) ∧
      (r = b ∨ r ∈ l) ∧
      (r = b ∨ ∃ pre post, l = pre ++ r :: post ∧ (if h then b.2 < r.2 else r.2 < b.2) ∧
          ∀ x ∈ pre, if h then x.2 < r.2 else r.2 < x.2) := by
  induction l generalizing b with
  | nil =>
    refine ⟨b, rfl, ?_, ?_, Or.inl rfl, Or.inl rfl⟩
    · cases h <;> simp
    · intro x hx; cases hx
  | cons x xs ih =>
    cases h with
    | true =>
      simp only [List.foldl_cons, bestStep, if_true]
      by_cases hxb : x.2 ≤ b.2
      · simp only [hxb, if_true]
        obtain ⟨r, hr, h1, h2, h3, h4⟩ := ih b
        simp only [if_true] at h1 h2 h4
        refine ⟨r, hr, ?_, ?_, ?_, ?_⟩
        · simpa using h1
        · intro y hy
          rcases List.mem_cons.1 hy with rfl | hy
          · omega
          · exact h2 y hy
        · rcases h3 with h3 | h3
          · exact Or.inl h3
          · exact Or.inr (List.mem_cons_of_mem _ h3)
        · rcases h4 with h4 | ⟨pre, post, e, hlt, hpre⟩
          · exact Or.inl h4
          · refine Or.inr ⟨x :: pre, post, by simp [e], by simpa using hlt, ?_⟩
            intro y hy
            rcases List.mem_cons.1 hy with rfl | hy
            · omega
            · exact hpre y hy
      · simp only [hxb, if_false]
        obtain ⟨r, hr, h1, h2, h3, h4⟩ := ih x
        simp only [if_true] at h1 h2 h4
        refine ⟨r, hr, ?_, ?_, ?_, ?_⟩
        · omega
        · intro y hy
          rcases List.mem_cons.1 hy with rfl | hy
          · omega
          · exact h2 y hy
        · rcases h3 with h3 | h3
          · exact Or.inr (h3 ▸ List.mem_cons_self)
          · exact Or.inr (List.mem_cons_of_mem _ h3)
        · rcases h4 with h4 | ⟨pre, post, e, hlt, hpre⟩
          · subst h4
            refine Or.inr ⟨[], xs, rfl, ?_, ?_⟩
            · omega
            · intro y hy; cases hy
          · refine Or.inr ⟨x :: pre, post, by simp [e], ?_, ?_⟩
            · omega
            · intro y hy
              rcases List.mem_cons.1 hy with rfl | hy
              · omega
              · exact hpre y hy
    | false =>
      simp only [List.foldl_cons, bestStep, Bool.false_eq_true, if_false]
      by_cases hxb : x.2 ≥ b.2
      · simp only [hxb, if_true]
        obtain ⟨r, hr, h1, h2, h3, h4⟩ := ih b
        simp only [Bool.false_eq_true, if_false] at h1 h2 h4
        refine ⟨r, hr, ?_, ?_, ?_, ?_⟩
        · simpa using h1
        · intro y hy
          rcases List.mem_cons.1 hy with rfl | hy
          · omega
          · exact h2 y hy
        · rcases h3 with h3 | h3
          · exact Or.inl h3
          · exact Or.inr (List.mem_cons_of_mem _ h3)
        · rcases h4 with h4 | ⟨pre, post, e, hlt, hpre⟩
          · exact Or.inl h4
          · refine Or.inr ⟨x :: pre, post, by simp [e], by simpa using hlt, ?_⟩
            intro y hy
            rcases List.mem_cons.1 hy with rfl | hy
            · omega
            · exact hpre y hy
      · simp only [hxb, if_false]
        obtain ⟨r, hr, h1, h2, h3, h4⟩ := ih x
        simp only [Bool.false_eq_true, if_false] at h1 h2 h4
        refine ⟨r, hr, ?_, ?_, ?_, ?_⟩
        · omega
        · intro y hy
          rcases List.mem_cons.1 hy with rfl | hy
          · omega
          · exact h2 y hy
        · rcases h3 with h3 | h3
          · exact Or.inr (h3 ▸ List.mem_cons_self)
          · exact Or.inr (List.mem_cons_of_mem _ h3)
        · rcases h4 with h4 | ⟨pre, post, e, hlt, hpre⟩
          · subst h4
            refine Or.inr ⟨[], xs, rfl, ?_, ?_⟩
            · omega
            · intro y hy; cases hy
          · refine Or.inr ⟨x :: pre, post, by simp [e], ?_, ?_⟩
            · omega
            · intro y hy
              rcases List.mem_cons.1 hy with rfl | hy
              · omega
              · exact hpre y hy

theorem bestOf_cons {α : Type} (h : Bool) (x : α × Nat) (xs : List (α × Nat)) :
    bestOf h (x :: xs) = xs.foldl (bestStep h) (some x) := rfl

theorem bestOf_eq_none {α : Type} (h : Bool) (l : List (α × Nat)) : bestOf h l = none ↔ l = [] := by
  cases l with
  | nil => simp [bestOf]
  | cons x xs =>
    obtain ⟨r, hr, _⟩ := foldl_bestStep_some h xs x
    simp [bestOf_cons, hr]

theorem bestOf_mem {α : Type} {h : Bool} {l : List (α × Nat)} {r : α × Nat} :
    bestOf h l = some r → r ∈ l := by
  cases l with
  | nil => intro hh; simp [bestOf] at hh
  | cons x xs =>
    intro hh
    obtain ⟨r', hr, _, _, h3, _⟩ := foldl_bestStep_some h xs x
    rw [bestOf_cons, hr] at hh
    cases hh
    rcases h3 with h3 | h3
    · exact h3 ▸ List.mem_cons_self
    · exact List.mem_cons_of_mem _ h3

theorem bestOf_optimal {α : Type} {h : Bool} {l : List (α × Nat)} {r : α × Nat} :
    bestOf h l = some r → ∀ x ∈ l, (if h then x.2 ≤ r.2 else r.2 ≤ x.2) := by
  cases l with
  | nil => intro hh; simp [bestOf] at hh
  | cons x xs =>
    intro hh
    obtain ⟨r', hr, h1, h2, _, _⟩ := foldl_bestStep_some h xs x
    rw [bestOf_cons, hr] at hh
    cases hh
    intro y hy
    rcases List.mem_cons.1 hy with rfl | hy
    · exact h1
    · exact h2 y hy

theorem bestOf_first {α : Type} {h : Bool} {l : List (α × Nat)} {r : α × Nat} :
    bestOf h l = some r →
    ∃ pre post, l = pre ++ r :: post ∧ ∀ x ∈ pre, (if h then x.2 < r.2 else r.2 < x.2) := by
  cases l with
  | nil => intro hh; simp [bestOf] at hh
  | cons x xs =>
    intro hh
    obtain ⟨r', hr, _, _, _, h4⟩ := foldl_bestStep_some h xs x
    rw [bestOf_cons, hr] at hh
    cases hh
    rcases h4 with h4 | ⟨pre, post, e, hlt, hpre⟩
    · subst h4
      exact ⟨[], xs, rfl, fun y hy => by cases hy⟩
    · refine ⟨x :: pre, post, by simp [e], ?_⟩
      intro y hy
      rcases List.mem_cons.1 hy with rfl | hy
      · exact hlt
      · exact hpre y hy

/-! ## set facts -/

theorem subset_iff_and {a b : Nat} : subset a b = true ↔ a &&& b = a := by
  simp [subset]

theorem subset_iff_testBit {a b : Nat} :
    subset a b = true ↔ ∀ i, a.testBit i = true → b.testBit i = true := by
  rw [subset_iff_and]
  constructor
  · intro h i hi
    have := congrArg (fun x => x.testBit i) h
    simp only [Nat.testBit_and, hi, Bool.true_and] at this
    exact this
  · intro h
    apply Nat.eq_of_testBit_eq
    intro i
    rw [Nat.testBit_and]
    cases hi : a.testBit i with
    | false => rfl
    | true => simp [h i hi]

theorem subset_refl (a : Nat) : subset a a = true := by
  simp [subset]

theorem and_eq_zero_iff_testBit {a b : Nat} :
    a &&& b = 0 ↔ ∀ i, a.testBit i = true → b.testBit i = false := by
  constructor
  · intro h i hi
    have := congrArg (fun x => x.testBit i) h
    simp only [Nat.testBit_and, hi, Bool.true_and, Nat.zero_testBit] at this
    exact this
  · intro h
    apply Nat.eq_of_testBit_eq
    intro i
    rw [Nat.testBit_and, Nat.zero_testBit]
    cases hi : a.testBit i with
    | false => rfl
    | true => simp [h i hi]

/-- a nonempty set cannot be included in two disjoint sets -/
theorem subset_disjoint_absurd {q p s : Nat} (hq : q ≠ 0) (h1 : subset q p = true)
    (h2 : subset q s = true) (hd : p &&& s = 0) : False := by
  obtain ⟨i, hi⟩ := Nat.exists_testBit_of_ne_zero hq
  have a := subset_iff_testBit.1 h1 i hi
  have b := subset_iff_testBit.1 h2 i hi
  have c := and_eq_zero_iff_testBit.1 hd i a
  rw [b] at c
  cases c

/-! ## B. initiator lists -/

def Loc.nonempty : Loc → Prop
  | .cpuset m => m ≠ 0
  | .obj _ _ => True

/-- "equal or disjoint" for cpuset locations; unrelated kinds never interfere -/
def Compat : Loc → Loc → Prop
  | .cpuset x, .cpuset y => x = y ∨ x &&& y = 0
  | _, _ => True

theorem matchLoc_refl (q : Loc) : matchLoc q q = true := by
  cases q <;> simp [matchLoc, subset]

theorem findInit_nil (q : Loc) : findInit q [] = none := rfl

theorem findInit_cons (q : Loc) (i : Init) (is : List Init) :
    findInit q (i :: is) = if matchLoc q i.loc then some i else findInit q is := by
  simp only [findInit, List.find?_cons]
  cases matchLoc q i.loc <;> simp

theorem findInit_setInit_same (q : Loc) (v : Nat) (is : List Init) :
    (findInit q (setInit q v is)).map (·.value) = some v := by
  induction is with
  | nil => simp [setInit, findInit_cons, matchLoc_refl]
  | cons i is ih =>
    simp only [setInit]
    by_cases hm : matchLoc q i.loc = true
    · rw [if_pos hm, findInit_cons, if_pos hm]; rfl
    · rw [if_neg hm, findInit_cons, if_neg hm]; exact ih

/-- a stored location covered by a compatible nonempty location is that location -/
theorem matchLoc_compat_eq {p s : Loc} (hp : p.nonempty) (hc : Compat p s)
    (hm : matchLoc p s = true) : s = p := by
  cases p with
  | cpuset x =>
    cases s with
    | cpuset y =>
      simp only [matchLoc] at hm
      simp only [Compat] at hc
      simp only [Loc.nonempty] at hp
      rcases hc with hc | hc
      · rw [hc]
      · rw [subset_iff_and.1 hm] at hc
        exact absurd hc hp
    | obj t g => simp [matchLoc] at hm
  | obj t g =>
    cases s with
    | cpuset y => simp [matchLoc] at hm
    | obj t' g' =>
      simp only [matchLoc, Bool.and_eq_true, beq_iff_eq] at hm
      rw [hm.1, hm.2]

/-- a nonempty query covered by two compatible locations: they are the same location -/
theorem matchLoc_both_eq {q p s : Loc} (hq : q.nonempty) (hc : Compat p s)
    (h1 : matchLoc q p = true) (h2 : matchLoc q s = true) : s = p := by
  cases q with
  | cpuset m =>
    cases p with
    | cpuset x =>
      cases s with
      | cpuset y =>
        simp only [matchLoc] at h1 h2
        simp only [Compat] at hc
        simp only [Loc.nonempty] at hq
        rcases hc with hc | hc
        · rw [hc]
        · exact (subset_disjoint_absurd hq h1 h2 hc).elim
      | obj t g => simp [matchLoc] at h2
    | obj t g => simp [matchLoc] at h1
  | obj t g =>
    cases p with
    | cpuset x => simp [matchLoc] at h1
    | obj t1 g1 =>
      cases s with
      | cpuset y => simp [matchLoc] at h2
      | obj t2 g2 =>
        simp only [matchLoc, Bool.and_eq_true, beq_iff_eq] at h1 h2
        rw [← h1.1, ← h1.2, ← h2.1, ← h2.2]

/-- one-step frame lemma: a `set` at `p` changes exactly the lookups that `p` covers, provided the
stored locations are Compat with `p` (equal or disjoint) and `p`, `q` are nonempty -/
theorem findInit_setInit_other (p q : Loc) (v : Nat) (is : List Init)
    (hp : p.nonempty) (hq : q.nonempty) (hc : ∀ i ∈ is, Compat p i.loc) :
    (findInit q (setInit p v is)).map (·.value) =
      if matchLoc q p then some v else (findInit q is).map (·.value) := by
  induction is with
  | nil =>
    simp only [setInit, findInit_cons, findInit_nil]
    by_cases hm : matchLoc q p = true <;> simp [hm]
  | cons i is ih =>
    have ih := ih (fun j hj => hc j (List.mem_cons_of_mem _ hj))
    have hci := hc i List.mem_cons_self
    simp only [setInit]
    by_cases hm : matchLoc p i.loc = true
    · have he : i.loc = p := matchLoc_compat_eq hp hci hm
      rw [if_pos hm, findInit_cons, findInit_cons, he]
      by_cases hqp : matchLoc q p = true
      · rw [if_pos hqp, if_pos hqp]; rfl
      · rw [if_neg hqp, if_neg hqp, if_neg hqp]
    · rw [if_neg hm, findInit_cons, findInit_cons]
      by_cases hqi : matchLoc q i.loc = true
      · have hqp : ¬ matchLoc q p = true := by
          intro hqp
          have he : i.loc = p := matchLoc_both_eq hq hci hqp hqi
          rw [he, matchLoc_refl] at hm
          exact hm rfl
        rw [if_pos hqi, if_neg hqp, if_pos hqi]
      · rw [if_neg hqi, if_neg hqi]
        exact ih

/-- the specification: value given by the last `set` in the history whose location covers the query -/
def specGet (h : List (Loc × Nat)) (q : Loc) : Option Nat :=
  (h.reverse.find? (fun p => matchLoc q p.1)).map (·.2)

def runSets (is0 : List Init) (h : List (Loc × Nat)) : List Init :=
  h.foldl (fun is p => setInit p.1 p.2 is) is0

theorem mem_setInit {q : Loc} {v : Nat} {is : List Init} {i : Init} :
    i ∈ setInit q v is → i.loc = q ∨ ∃ j ∈ is, j.loc = i.loc := by
  induction is with
  | nil =>
    intro h
    simp only [setInit, List.mem_singleton] at h
    exact Or.inl (by rw [h])
  | cons j js ih =>
    simp only [setInit]
    by_cases hm : matchLoc q j.loc = true
    · rw [if_pos hm]
      intro h
      rcases List.mem_cons.1 h with h | h
      · exact Or.inr ⟨j, List.mem_cons_self, by rw [h]⟩
      · exact Or.inr ⟨i, List.mem_cons_of_mem _ h, rfl⟩
    · rw [if_neg hm]
      intro h
      rcases List.mem_cons.1 h with h | h
      · exact Or.inr ⟨j, List.mem_cons_self, by rw [h]⟩
      · rcases ih h with h | ⟨k, hk, e⟩
        · exact Or.inl h
        · exact Or.inr ⟨k, List.mem_cons_of_mem _ hk, e⟩

theorem runSets_append (is0 : List Init) (h1 h2 : List (Loc × Nat)) :
    runSets is0 (h1 ++ h2) = runSets (runSets is0 h1) h2 := by
  simp [runSets, List.foldl_append]

/-- every stored location comes from the history -/
theorem mem_runSets (h : List (Loc × Nat)) :
    ∀ i ∈ runSets [] h, ∃ a ∈ h, a.1 = i.loc := by
  unfold runSets
  apply foldl_inv (P := fun (is : List Init) => ∀ i ∈ is, ∃ a ∈ h, a.1 = i.loc)
  · intro i hi; cases hi
  · intro is p hp hinv i hi
    rcases mem_setInit hi with e | ⟨j, hj, e⟩
    · exact ⟨p, hp, e.symm⟩
    · obtain ⟨a, ha, e'⟩ := hinv j hj
      exact ⟨a, ha, e'.trans e⟩

theorem get_after_set_history_rev (q : Loc) (hq : q.nonempty) (xs : List (Loc × Nat))
    (hpd : ∀ a ∈ xs, ∀ b ∈ xs, Compat a.1 b.1) (hne : ∀ a ∈ xs, a.1.nonempty) :
    (findInit q (runSets [] xs.reverse)).map (·.value) =
      (xs.find? (fun p => matchLoc q p.1)).map (·.2) := by
  induction xs with
  | nil => rfl
  | cons p xs ih =>
    have ih := ih (fun a ha b hb => hpd a (List.mem_cons_of_mem _ ha) b (List.mem_cons_of_mem _ hb))
      (fun a ha => hne a (List.mem_cons_of_mem _ ha))
    rw [List.reverse_cons, runSets_append]
    have : runSets (runSets [] xs.reverse) [p] = setInit p.1 p.2 (runSets [] xs.reverse) := rfl
    rw [this, findInit_setInit_other p.1 q p.2 _ (hne p List.mem_cons_self) hq, List.find?_cons]
    · by_cases hm : matchLoc q p.1 = true
      · simp [hm]
      · simp only [hm]
        simpa using ih
    · intro i hi
      obtain ⟨a, ha, e⟩ := mem_runSets _ i hi
      rw [← e]
      exact hpd p List.mem_cons_self a (List.mem_cons_of_mem _ (List.mem_reverse.1 ha))

theorem get_after_set_history (h : List (Loc × Nat))
    (hpd : ∀ a ∈ h, ∀ b ∈ h, Compat a.1 b.1) (hne : ∀ a ∈ h, a.1.nonempty)
    (q : Loc) (hq : q.nonempty) :
    (findInit q (runSets [] h)).map (·.value) = specGet h q := by
  have := get_after_set_history_rev q hq h.reverse
    (fun a ha b hb => hpd a (List.mem_reverse.1 ha) b (List.mem_reverse.1 hb))
    (fun a ha => hne a (List.mem_reverse.1 ha))
  rw [List.reverse_reverse] at this
  exact this

/-! ## C. refresh keeps every still-valid lookup -/

def validQuery (e : Env) : Loc → Prop
  | .cpuset q => q ≠ 0 ∧ subset q e.root = true
  | .obj t g => e.hasObj t g = true

theorem subset_inter_iff {m c r : Nat} (hr : subset m r = true) :
    subset m (c &&& r) = subset m c := by
  rw [Bool.eq_iff_iff, subset_iff_testBit, subset_iff_testBit]
  rw [subset_iff_testBit] at hr
  constructor
  · intro h i hi
    have := h i hi
    rw [Nat.testBit_and, Bool.and_eq_true] at this
    exact this.1
  · intro h i hi
    rw [Nat.testBit_and, h i hi, hr i hi]; rfl

/-- the refreshed location matches a valid query exactly when the original did; a dropped initiator
never matched -/
theorem matchLoc_refreshInit {e : Env} {q : Loc} (hq : validQuery e q) (i : Init) :
    match refreshInit e i with
    | none => matchLoc q i.loc = false
    | some i' => matchLoc q i'.loc = matchLoc q i.loc ∧ i'.value = i.value := by
  obtain ⟨loc, v⟩ := i
  cases loc with
  | cpuset c =>
    simp only [refreshInit]
    by_cases hz : (c &&& e.root == 0) = true
    · rw [if_pos hz]
      simp only
      cases q with
      | cpuset m =>
        simp only [validQuery] at hq
        simp only [matchLoc]
        cases hs : subset m c with
        | false => rfl
        | true =>
          exfalso
          have : subset m (c &&& e.root) = true := by rw [subset_inter_iff hq.2]; exact hs
          rw [beq_iff_eq] at hz
          rw [hz, subset_iff_and, Nat.and_zero] at this
          exact hq.1 this.symm
      | obj t g => rfl
    · rw [if_neg hz]
      simp only
      cases q with
      | cpuset m =>
        simp only [validQuery] at hq
        simp only [matchLoc]
        exact ⟨subset_inter_iff hq.2, trivial⟩
      | obj t g => exact ⟨rfl, trivial⟩
  | obj t g =>
    simp only [refreshInit]
    by_cases hh : e.hasObj t g = true
    · rw [if_pos hh]
      exact ⟨rfl, rfl⟩
    · rw [if_neg hh]
      simp only
      cases q with
      | cpuset m => rfl
      | obj t' g' =>
        simp only [validQuery] at hq
        simp only [matchLoc]
        cases hb : (t' == t && g' == g) with
        | false => rfl
        | true =>
          exfalso
          simp only [Bool.and_eq_true, beq_iff_eq] at hb
          rw [hb.1, hb.2] at hq
          exact hh hq

theorem findInit_refresh (e : Env) (is : List Init) (q : Loc) (hq : validQuery e q) :
    (findInit q (is.filterMap (refreshInit e))).map (·.value) = (findInit q is).map (·.value) := by
  induction is with
  | nil => rfl
  | cons i is ih =>
    have hm := matchLoc_refreshInit hq i
    rw [List.filterMap_cons, findInit_cons]
    cases hr : refreshInit e i with
    | none =>
      rw [hr] at hm
      simp only at hm ⊢
      rw [hm, if_neg (by simp)]
      exact ih
    | some i' =>
      rw [hr] at hm
      simp only at hm ⊢
      rw [findInit_cons, hm.1]
      by_cases hqi : matchLoc q i.loc = true
      · rw [if_pos hqi, if_pos hqi]
        simp only [Option.map_some, hm.2]
      · rw [if_neg hqi, if_neg hqi]
        exact ih

theorem mem_refreshInits (e : Env) (is : List Init) (i' : Init) :
    i' ∈ is.filterMap (refreshInit e) ↔ ∃ i ∈ is, refreshInit e i = some i' :=
  List.mem_filterMap

theorem refreshInit_value {e : Env} {i i' : Init} : refreshInit e i = some i' → i'.value = i.value := by
  obtain ⟨loc, v⟩ := i
  cases loc with
  | cpuset c =>
    simp only [refreshInit]
    by_cases hz : (c &&& e.root == 0) = true
    · rw [if_pos hz]; intro h; cases h
    · rw [if_neg hz]; intro h; cases h; rfl
  | obj t g =>
    simp only [refreshInit]
    by_cases hh : e.hasObj t g = true
    · rw [if_pos hh]; intro h; cases h; rfl
    · rw [if_neg hh]; intro h; cases h

theorem refreshInit_idem {e : Env} {i i' : Init} :
    refreshInit e i = some i' → refreshInit e i' = some i' := by
  obtain ⟨loc, v⟩ := i
  cases loc with
  | cpuset c =>
    simp only [refreshInit]
    by_cases hz : (c &&& e.root == 0) = true
    · rw [if_pos hz]; intro h; cases h
    · rw [if_neg hz]; intro h; cases h
      have e1 : c &&& e.root &&& e.root = c &&& e.root := by
        rw [Nat.and_assoc, Nat.and_self]
      simp only [e1]
      rw [if_neg hz]
  | obj t g =>
    simp only [refreshInit]
    by_cases hh : e.hasObj t g = true
    · rw [if_pos hh]; intro h; cases h
      simp only
      rw [if_pos hh]
    · rw [if_neg hh]; intro h; cases h

/-! ## D. default nodeset -/

def ocs (o : Obj) : Nat := o.cpuset.getD 0

theorem mem_insertByOs (n x : Obj) (l : List Obj) : x ∈ insertByOs n l ↔ x = n ∨ x ∈ l := by
  induction l with
  | nil => simp [insertByOs]
  | cons m ms ih =>
    simp only [insertByOs]
    by_cases h : n.os.getD 0 ≤ m.os.getD 0
    · rw [if_pos h]; exact List.mem_cons
    · rw [if_neg h, List.mem_cons, ih, List.mem_cons]
      constructor
      · rintro (h | h | h)
        · exact Or.inr (Or.inl h)
        · exact Or.inl h
        · exact Or.inr (Or.inr h)
      · rintro (h | h | h)
        · exact Or.inr (Or.inl h)
        · exact Or.inl h
        · exact Or.inr (Or.inr h)

theorem mem_sortByOs (l : List Obj) (n : Obj) : n ∈ sortByOs l ↔ n ∈ l := by
  induction l with
  | nil => simp [sortByOs]
  | cons m ms ih =>
    have : sortByOs (m :: ms) = insertByOs m (sortByOs ms) := rfl
    rw [this, mem_insertByOs, ih, List.mem_cons]

/-- invariant of the default-nodeset loops (`pool` = the NUMA level) -/
structure DnsInv (pool : List Obj) (s : DnsState) : Prop where
  rem : ∀ c ∈ s.chosen, ocs c &&& s.remaining = 0
  pw : s.chosen.Pairwise (fun a b => ocs a &&& ocs b = 0)
  mem : ∀ c ∈ s.chosen, c ∈ pool
  bits : ∀ b, s.nodeset.testBit b = true ↔ ∃ n ∈ s.chosen, n.os.getD 0 = b

theorem and_andnot_self (x r : Nat) : x &&& (r ^^^ (r &&& x)) = 0 := by
  rw [and_eq_zero_iff_testBit]
  intro i hi
  rw [Nat.testBit_xor, Nat.testBit_and, hi]
  cases r.testBit i <;> rfl

theorem and_andnot_of_disjoint {c r : Nat} (x : Nat) (h : c &&& r = 0) :
    c &&& (r ^^^ (r &&& x)) = 0 := by
  rw [and_eq_zero_iff_testBit] at h ⊢
  intro i hi
  rw [Nat.testBit_xor, Nat.testBit_and, h i hi]
  rfl

theorem disjoint_of_subset_of_disjoint {n c r : Nat} (hs : subset n r = true) (hd : c &&& r = 0) :
    n &&& c = 0 := by
  rw [and_eq_zero_iff_testBit] at hd ⊢
  rw [subset_iff_testBit] at hs
  intro i hi
  cases hc : c.testBit i with
  | false => rfl
  | true =>
    have := hd i hc
    rw [hs i hi] at this
    cases this

theorem DnsInv.take {pool : List Obj} {s : DnsState} {n : Obj} (hi : DnsInv pool s)
    (hn : n ∈ pool) (hd : ∀ c ∈ s.chosen, ocs n &&& ocs c = 0) : DnsInv pool (s.take n) := by
  refine ⟨?_, ?_, ?_, ?_⟩
  · intro c hc
    show ocs c &&& (s.remaining ^^^ (s.remaining &&& ocs n)) = 0
    have hc : c ∈ n :: s.chosen := hc
    rcases List.mem_cons.1 hc with rfl | hc
    · exact and_andnot_self _ _
    · exact and_andnot_of_disjoint _ (hi.rem c hc)
  · show (n :: s.chosen).Pairwise _
    exact List.pairwise_cons.2 ⟨hd, hi.pw⟩
  · intro c hc
    have hc : c ∈ n :: s.chosen := hc
    rcases List.mem_cons.1 hc with rfl | hc
    · exact hn
    · exact hi.mem c hc
  · intro b
    show (s.nodeset ||| (1 <<< n.os.getD 0)).testBit b = true ↔ ∃ m ∈ n :: s.chosen, m.os.getD 0 = b
    rw [Nat.testBit_or, Nat.one_shiftLeft, Nat.testBit_two_pow, Bool.or_eq_true, decide_eq_true_eq,
      hi.bits b]
    constructor
    · rintro (⟨m, hm, e⟩ | e)
      · exact ⟨m, List.mem_cons_of_mem _ hm, e⟩
      · exact ⟨n, List.mem_cons_self, e⟩
    · rintro ⟨m, hm, e⟩
      rcases List.mem_cons.1 hm with rfl | hm
      · exact Or.inr e
      · exact Or.inl ⟨m, hm, e⟩

theorem DnsInv.take_subset {pool : List Obj} {s : DnsState} {n : Obj} (hi : DnsInv pool s)
    (hn : n ∈ pool) (hs : subset (n.cpuset.getD 0) s.remaining = true) : DnsInv pool (s.take n) :=
  hi.take hn (fun c hc => disjoint_of_subset_of_disjoint (n := ocs n) hs (hi.rem c hc))

theorem DnsInv.setDone {pool : List Obj} {s : DnsState} (d : Bool) (hi : DnsInv pool s) :
    DnsInv pool { s with done := d } :=
  ⟨hi.rem, hi.pw, hi.mem, hi.bits⟩

theorem DnsInv.pass1 {pool : List Obj} {first : Option String} {s : DnsState} {n : Obj}
    (hi : DnsInv pool s) (hn : n ∈ pool) : DnsInv pool (dnsPass1 first s n) := by
  unfold dnsPass1
  by_cases hd : s.done = true
  · rw [if_pos hd]; exact hi
  · rw [if_neg hd]
    by_cases hs : n.subtype ≠ first
    · rw [if_pos hs]; exact hi
    · rw [if_neg hs]
      dsimp only
      apply DnsInv.setDone
      by_cases hsub : subset (n.cpuset.getD 0) s.remaining = true
      · rw [if_pos hsub]; exact hi.take_subset hn hsub
      · rw [if_neg hsub]; exact hi

theorem DnsInv.pass2 {pool : List Obj} {s : DnsState} {p : Nat × Obj}
    (hi : DnsInv pool s) (hn : p.2 ∈ pool) : DnsInv pool (dnsPass2 s p) := by
  unfold dnsPass2
  by_cases hd : s.done = true
  · rw [if_pos hd]; exact hi
  · rw [if_neg hd]
    by_cases hs : s.nodeset.testBit p.1 = true
    · rw [if_pos hs]; exact hi
    · rw [if_neg hs]
      dsimp only
      apply DnsInv.setDone
      by_cases hsub : (subset (p.2.cpuset.getD 0) s.remaining && p.2.cpuset.getD 0 != 0) = true
      · rw [if_pos hsub]
        rw [Bool.and_eq_true] at hsub
        exact hi.take_subset hn hsub.1
      · rw [if_neg hsub]; exact hi

theorem mem_enumFrom1 {l : List Obj} {p : Nat × Obj} (h : p ∈ enumFrom1 l) : p.2 ∈ l := by
  simp only [enumFrom1, List.mem_map] at h
  obtain ⟨⟨a, b⟩, hab, rfl⟩ := h
  exact (List.of_mem_zip hab).2

theorem DnsInv.init (pool : List Obj) (r : Nat) (d : Bool) :
    DnsInv pool { nodeset := 0, chosen := [], remaining := r, done := d } := by
  refine ⟨?_, List.Pairwise.nil, ?_, ?_⟩
  · intro c hc; cases hc
  · intro c hc; cases hc
  · intro b
    simp

theorem defaultNodesetState_inv (e : Env) : DnsInv e.nodes (defaultNodesetState e) := by
  unfold defaultNodesetState
  split
  · exact DnsInv.init _ _ _
  · rename_i n0 rest heq
    have hmem : ∀ x ∈ n0 :: rest, x ∈ e.nodes := by
      intro x hx
      rw [← heq] at hx
      exact (mem_sortByOs _ _).1 hx
    dsimp only
    apply foldl_inv (P := DnsInv e.nodes)
    · apply foldl_inv (P := DnsInv e.nodes)
      · apply DnsInv.take (DnsInv.init _ _ _) (hmem n0 List.mem_cons_self)
        intro c hc; cases hc
      · intro s x hx hi
        exact hi.pass1 (hmem x (List.mem_cons_of_mem _ hx))
    · intro s p hp hi
      exact hi.pass2 (hmem p.2 (List.mem_cons_of_mem _ (mem_enumFrom1 hp)))

theorem defaultNodeset_chosen_mem (e : Env) : ∀ n ∈ (defaultNodesetState e).chosen, n ∈ e.nodes :=
  (defaultNodesetState_inv e).mem

theorem defaultNodeset_disjoint (e : Env) :
    (defaultNodesetState e).chosen.Pairwise (fun a b => ocs a &&& ocs b = 0) :=
  (defaultNodesetState_inv e).pw

theorem defaultNodeset_bits (e : Env) (b : Nat) :
    (defaultNodesetState e).nodeset.testBit b = true ↔
      ∃ n ∈ (defaultNodesetState e).chosen, n.os.getD 0 = b :=
  (defaultNodesetState_inv e).bits b

/-- the chosen nodes never overlap what is still uncovered -/
theorem defaultNodeset_remaining (e : Env) :
    ∀ c ∈ (defaultNodesetState e).chosen, ocs c &&& (defaultNodesetState e).remaining = 0 :=
  (defaultNodesetState_inv e).rem

theorem chosen_mono_pass1 {x : Obj} {first : Option String} {s : DnsState} {n : Obj}
    (h : x ∈ s.chosen) : x ∈ (dnsPass1 first s n).chosen := by
  unfold dnsPass1
  by_cases hd : s.done = true
  · rw [if_pos hd]; exact h
  · rw [if_neg hd]
    by_cases hs : n.subtype ≠ first
    · rw [if_pos hs]; exact h
    · rw [if_neg hs]
      dsimp only
      by_cases hsub : subset (n.cpuset.getD 0) s.remaining = true
      · rw [if_pos hsub]; exact List.mem_cons_of_mem _ h
      · rw [if_neg hsub]; exact h

theorem chosen_mono_pass2 {x : Obj} {s : DnsState} {p : Nat × Obj}
    (h : x ∈ s.chosen) : x ∈ (dnsPass2 s p).chosen := by
  unfold dnsPass2
  by_cases hd : s.done = true
  · rw [if_pos hd]; exact h
  · rw [if_neg hd]
    by_cases hs : s.nodeset.testBit p.1 = true
    · rw [if_pos hs]; exact h
    · rw [if_neg hs]
      dsimp only
      by_cases hsub : (subset (p.2.cpuset.getD 0) s.remaining && p.2.cpuset.getD 0 != 0) = true
      · rw [if_pos hsub]; exact List.mem_cons_of_mem _ h
      · rw [if_neg hsub]; exact h

theorem defaultNodeset_first (e : Env) (n0 : Obj) (rest : List Obj)
    (h : sortByOs e.nodes = n0 :: rest) : n0 ∈ (defaultNodesetState e).chosen := by
  unfold defaultNodesetState
  rw [h]
  dsimp only
  apply foldl_inv (P := fun (s : DnsState) => n0 ∈ s.chosen)
  · apply foldl_inv (P := fun (s : DnsState) => n0 ∈ s.chosen)
    · exact List.mem_cons_self
    · intro s x _ hi
      exact chosen_mono_pass1 hi
  · intro s p _ hi
    exact chosen_mono_pass2 hi

end Hw.MemAttrs
