/-
  Hw.Attr.GroupingValue — the factorised matrix between the groups (`GROUP_VALUE`, model `groupValue`): it is the `uint64_t`-wrapped
  double sum of the cells between the two groups divided by the product of the sizes, and it is symmetric whenever the matrix is —
  which is why `hwloc__groups_by_distances` may recurse with `needcheck = 0` as far as symmetry is concerned.
-/
import Hw.Attr.Grouping
namespace Hw.Grouping

def sumL (f : Nat → Nat) : List Nat → Nat
  | [] => 0
  | x :: xs => f x + sumL f xs

theorem sumL_add (f g : Nat → Nat) : ∀ l, sumL (fun x => f x + g x) l = sumL f l + sumL g l
  | [] => rfl
  | x :: xs => by simp only [sumL, sumL_add f g xs]; omega

theorem sumL_congr {f g : Nat → Nat} : ∀ l, (∀ x ∈ l, f x = g x) → sumL f l = sumL g l
  | [], _ => rfl
  | x :: xs, h => by
    simp only [sumL]
    rw [h x (List.mem_cons_self ..), sumL_congr xs (fun y hy => h y (List.mem_cons_of_mem _ hy))]

/-- exchanging the two summations -/
theorem sumL_swap (F : Nat → Nat → Nat) (B : List Nat) : ∀ A : List Nat,
    sumL (fun i => sumL (fun j => F i j) B) A = sumL (fun j => sumL (fun i => F i j) A) B
  | [] => by
    simp only [sumL]
    induction B with
    | nil => rfl
    | cons y ys ih => simp only [sumL]; omega
  | x :: xs => by
    simp only [sumL]
    rw [sumL_swap F B xs, ← sumL_add]

/-- the wrapped accumulation of one row -/
theorem foldl_wrap (f : Nat → Nat) : ∀ (l : List Nat) (acc : Nat),
    (l.foldl (fun acc j => (acc + f j) % W64) acc) % W64 = (acc + sumL f l) % W64
  | [], acc => by simp [sumL]
  | x :: xs, acc => by
    simp only [List.foldl_cons, sumL]
    rw [foldl_wrap f xs, Nat.mod_add_mod, Nat.add_assoc]

theorem foldl_wrap_lt (f : Nat → Nat) : ∀ (l : List Nat) (acc : Nat), acc < W64 →
    l.foldl (fun acc j => (acc + f j) % W64) acc < W64
  | [], _, h => h
  | x :: xs, acc, _ => by
    simp only [List.foldl_cons]
    exact foldl_wrap_lt f xs _ (Nat.mod_lt _ (by decide))

/-- the wrapped double accumulation, in the order the C loops run -/
def wsum (M : Mat) (A B : List Nat) (acc : Nat) : Nat :=
  A.foldl (fun acc i => B.foldl (fun acc j => (acc + M i j) % W64) acc) acc

theorem wsum_lt (M : Mat) (B : List Nat) : ∀ (A : List Nat) (acc : Nat), acc < W64 → wsum M A B acc < W64
  | [], _, h => h
  | x :: xs, acc, h => by
    unfold wsum
    simp only [List.foldl_cons]
    exact wsum_lt M B xs _ (foldl_wrap_lt _ B acc h)

theorem wsum_mod (M : Mat) (B : List Nat) : ∀ (A : List Nat) (acc : Nat),
    wsum M A B acc % W64 = (acc + sumL (fun i => sumL (fun j => M i j) B) A) % W64
  | [], acc => by simp [wsum, sumL]
  | x :: xs, acc => by
    unfold wsum
    simp only [List.foldl_cons, sumL]
    have ih := wsum_mod M B xs (B.foldl (fun acc j => (acc + M x j) % W64) acc)
    unfold wsum at ih
    rw [ih]
    have h1 := foldl_wrap (fun j => M x j) B acc
    rw [← Nat.mod_add_mod, h1, Nat.mod_add_mod, Nat.add_assoc]

/-- `GROUP_VALUE(a, b)` = (Σ_{i ∈ a} Σ_{j ∈ b} M i j) mod 2^64, divided by the product of the two sizes -/
theorem groupValue_eq (M : Mat) (n : Nat) (ids : Nat → Nat) (a b : Nat) :
    groupValue M n ids a b =
      (sumL (fun i => sumL (fun j => M i j) (members ids n (b+1))) (members ids n (a+1))) % W64
        / ((members ids n (a+1)).length * (members ids n (b+1)).length) := by
  unfold groupValue
  have h := wsum_mod M (members ids n (b+1)) (members ids n (a+1)) 0
  have hl := wsum_lt M (members ids n (b+1)) (members ids n (a+1)) 0 (by decide)
  unfold wsum at h hl
  rw [Nat.mod_eq_of_lt hl, Nat.zero_add] at h
  rw [h]

theorem members_lt {ids : Nat → Nat} {n g i : Nat} (h : i ∈ members ids n g) : i < n := by
  unfold members at h
  exact List.mem_range.mp (List.mem_filter.mp h).1

/-- **the matrix between the groups is symmetric when the matrix is** (among the `n` objects) -/
theorem groupValue_symm (M : Mat) (n : Nat) (ids : Nat → Nat) (hs : ∀ i j, i < n → j < n → M i j = M j i) (a b : Nat) :
    groupValue M n ids a b = groupValue M n ids b a := by
  rw [groupValue_eq, groupValue_eq, sumL_swap, Nat.mul_comm]
  congr 2
  apply sumL_congr
  intro j hj
  apply sumL_congr
  intro i hi
  exact hs i j (members_lt hi) (members_lt hj)

end Hw.Grouping
