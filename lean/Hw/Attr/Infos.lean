/-
  Hw.Attr.Infos — `hwloc_modify_infos` / `hwloc_obj_add_info` (hwloc/topology.c 465-600).

  The C functions edit one array in place (REPLACE and REMOVE compact it while scanning it).  The
  model `*Arr` follows the array code literally — a cell store `Nat → Info` that is read and written
  by index — and is proved equal to the list specification `*Spec` the documentation describes.
  Return codes as in the C: ADD 1; ADD_UNIQUE 0 (present) or 1; REPLACE 1+isMatch or (none) ADD's 1;
  REMOVE the number of removed pairs; unknown operation −1 (EINVAL); NULL name/value −1 (EINVAL)
  for ADD, ADD_UNIQUE, REPLACE (NULL = wildcard for REMOVE).
-/
namespace Hw.Infos

abbrev Info := String × String

/-! ### list specifications -/

def addSpec (l : List Info) (n v : String) : List Info := l ++ [(n, v)]

def addUniqueSpec (l : List Info) (n v : String) : List Info × Int :=
  if l.contains (n, v) then (l, 0) else (addSpec l n v, 1)

/-- REPLACE: the first pair named `n` gets the new value, later pairs named `n` are deleted, the others keep their
relative order; if there is none the pair is appended -/
def replaceSpec (l : List Info) (n v : String) : List Info × Int :=
  let cnt := l.countP (fun p => p.1 == n)
  if cnt = 0 then (addSpec l n v, 1)
  else
    let rec go : List Info → Bool → List Info
      | [], _ => []
      | p :: ps, seen => if p.1 == n then (if seen then go ps true else (n, v) :: go ps true) else p :: go ps seen
    (go l false, 1 + (cnt : Int))

def isMatch (n v : Option String) (p : Info) : Bool :=
  (match n with | none => true | some n => p.1 == n) && (match v with | none => true | some v => p.2 == v)

/-- REMOVE: exactly the matching pairs are deleted (NULL name / value match everything) -/
def removeSpec (l : List Info) (n v : Option String) : List Info × Int :=
  (l.filter (fun p => !isMatch n v p), ((l.countP (isMatch n v) : Nat) : Int))

/-! ### the in-place array code -/

/-- array cells as a function, `count` valid cells -/
structure Arr where
  cell : Nat → Info
  count : Nat

def Arr.ofList (l : List Info) : Arr := ⟨fun i => (l[i]?).getD ("", ""), l.length⟩
def Arr.toList (a : Arr) : List Info := (List.range a.count).map a.cell
def Arr.set (a : Arr) (i : Nat) (p : Info) : Arr := { a with cell := fun j => if j = i then p else a.cell j }

/-- loop of `hwloc__remove_infos`: state = (cells, found) after scanning `i` cells -/
def removeLoop (n v : Option String) (a : Arr) : Nat → Arr × Nat
  | 0 => (a, 0)
  | i+1 =>
    let (a', found) := removeLoop n v a i
    if isMatch n v (a'.cell i) then (a', found + 1)        -- cells ≥ i are still the original ones
    else (a'.set (i - found) (a'.cell i), found)

def removeArr (l : List Info) (n v : Option String) : List Info × Int :=
  let (a, found) := removeLoop n v (Arr.ofList l) l.length
  (({ a with count := l.length - found } : Arr).toList, (found : Int))

/-- loop of `hwloc__replace_infos` -/
def replaceLoop (n v : String) (a : Arr) : Nat → Arr × Nat
  | 0 => (a, 0)
  | i+1 =>
    let (a', found) := replaceLoop n v a i
    if (a'.cell i).1 == n then
      if found = 0 then (a'.set i ((a'.cell i).1, v), 1) else (a', found + 1)
    else if 1 < found then (a'.set (i - (found - 1)) (a'.cell i), found)
    else (a', found)

def replaceArr (l : List Info) (n v : String) : List Info × Int :=
  let (a, found) := replaceLoop n v (Arr.ofList l) l.length
  if found = 0 then (addSpec l n v, 1)
  else (({ a with count := l.length - (found - 1) } : Arr).toList, 1 + (found : Int))

/-- `hwloc_modify_infos(infos, op, name, value)`; ops: 0 ADD? — numeric values come from the harness -/
inductive Op | add | addUnique | replace | remove | unknown
deriving DecidableEq, Repr

def modify (l : List Info) (op : Op) (n v : Option String) : List Info × Int :=
  match op, n, v with
  | .add, some n, some v => (addSpec l n v, 1)
  | .addUnique, some n, some v => addUniqueSpec l n v
  | .replace, some n, some v => replaceArr l n v
  | .remove, n, v => removeArr l n v
  | _, _, _ => (l, -1)

end Hw.Infos
