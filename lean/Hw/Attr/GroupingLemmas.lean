/-
  Hw.Attr.GroupingLemmas — invariants of the model of `hwloc__find_groups_by_min_distance` (Hw.Attr.Grouping):
  the rescan loop terminates within its fuel, group ids partition the objects into classes of at least two members,
  every class is connected through minimal-distance cells, a round at least halves the number of objects.
-/
import Hw.Attr.Grouping
namespace Hw.Grouping

/-! ## the validity check -/

theorem cmpVals_eq_zero (a b : Nat) : (cmpVals a b == 0) = true ↔ a = b := by
  unfold cmpVals
  by_cases h1 : a < b
  · rw [if_pos h1]; constructor
    · intro h; exact absurd h (by decide)
    · intro h; omega
  · rw [if_neg h1]
    by_cases h2 : a = b
    · rw [if_pos h2]; exact ⟨fun _ => h2, fun _ => rfl⟩
    · rw [if_neg h2]; constructor
      · intro h; exact absurd h (by decide)
      · intro h; exact absurd h h2

theorem cmpVals_pos (a b : Nat) : ¬ (cmpVals a b ≤ 0) ↔ b < a := by
  unfold cmpVals
  by_cases h1 : a < b
  · rw [if_pos h1]; constructor
    · intro h; exact absurd (by decide) h
    · intro h; omega
  · rw [if_neg h1]
    by_cases h2 : a = b
    · rw [if_pos h2]; constructor
      · intro h; exact absurd (by decide) h
      · intro h; omega
    · rw [if_neg h2]; constructor
      · intro _; omega
      · intro _; decide

/-- **`hwloc__check_grouping_matrix` accepts exactly** the matrices whose cells above the diagonal equal their mirror cell and are
strictly larger than the diagonal cell of their row -/
theorem checkMatrix_iff (M : Mat) (n : Nat) :
    checkMatrix M n = true ↔ ∀ i j, i < j → j < n → M i j = M j i ∧ M i i < M i j := by
  unfold checkMatrix
  simp only [List.all_eq_true, List.mem_range, Bool.or_eq_true, Bool.and_eq_true, Bool.not_eq_true', decide_eq_false_iff_not,
    cmpVals_eq_zero]
  constructor
  · intro h i j hij hj
    rcases h i (by omega) j hj with h1 | ⟨h1, h2⟩
    · exact absurd hij h1
    · exact ⟨h1, (cmpVals_pos _ _).mp h2⟩
  · intro h i _ j hj
    by_cases hij : i < j
    · right; exact ⟨(h i j hij hj).1, (cmpVals_pos _ _).mpr (h i j hij hj).2⟩
    · left; exact hij

/-! ## counting the grouped objects -/

/-- number of `k < n` with `ids k ≠ 0` -/
def nz (ids : Nat → Nat) : Nat → Nat
  | 0 => 0
  | n+1 => nz ids n + (if ids n ≠ 0 then 1 else 0)

theorem nz_le (ids : Nat → Nat) : ∀ n, nz ids n ≤ n
  | 0 => Nat.le_refl 0
  | n+1 => by
    have := nz_le ids n
    simp only [nz]; split <;> omega

theorem upd_same (f : Nat → Nat) (k v : Nat) : upd f k v k = v := by simp [upd]
theorem upd_other (f : Nat → Nat) {k x : Nat} (v : Nat) (h : x ≠ k) : upd f k v x = f x := by simp [upd, h]

theorem nz_upd_ge (ids : Nat → Nat) (k v : Nat) : ∀ n, n ≤ k → nz (upd ids k v) n = nz ids n
  | 0, _ => rfl
  | n+1, h => by
    have ih := nz_upd_ge ids k v n (by omega)
    have : n ≠ k := by omega
    simp only [nz, ih, upd_other ids v this]

theorem nz_upd_lt (ids : Nat → Nat) (k v : Nat) (h0 : ids k = 0) (hv : v ≠ 0) :
    ∀ n, k < n → nz (upd ids k v) n = nz ids n + 1
  | 0, h => by omega
  | n+1, h => by
    by_cases hk : k = n
    · subst hk
      simp only [nz, nz_upd_ge ids k v k (Nat.le_refl k), upd_same, h0]
      simp [hv]
    · have ih := nz_upd_lt ids k v h0 hv n (by omega)
      have : n ≠ k := fun e => hk e.symm
      simp only [nz, ih, upd_other ids v this]; omega

/-- ids only ever grow from 0 -/
theorem nz_mono {f g : Nat → Nat} (h : ∀ x, f x ≠ 0 → g x = f x) : ∀ n, nz f n ≤ nz g n
  | 0 => Nat.le_refl 0
  | n+1 => by
    have ih := nz_mono h n
    simp only [nz]
    by_cases hf : f n ≠ 0
    · have : g n ≠ 0 := by rw [h n hf]; exact hf
      rw [if_pos hf, if_pos this]; omega
    · rw [if_neg hf]; split <;> omega

/-- equal counts: nothing was added below `n` -/
theorem nz_eq_unchanged {f g : Nat → Nat} (h : ∀ x, f x ≠ 0 → g x = f x) :
    ∀ n, nz g n = nz f n → ∀ x, x < n → f x = 0 → g x = 0
  | 0, _, x, hx, _ => by omega
  | n+1, he, x, hx, hf0 => by
    have hm := nz_mono h n
    simp only [nz] at he
    by_cases hfn : f n ≠ 0
    · have hgn : g n ≠ 0 := by rw [h n hfn]; exact hfn
      rw [if_pos hfn, if_pos hgn] at he
      by_cases hxn : x = n
      · subst hxn; exact absurd hf0 hfn
      · exact nz_eq_unchanged h n (by omega) x (by omega) hf0
    · rw [if_neg hfn] at he
      by_cases hgn : g n ≠ 0
      · rw [if_pos hgn] at he; omega
      · rw [if_neg hgn] at he
        by_cases hxn : x = n
        · subst hxn; exact Decidable.not_not.mp hgn
        · exact nz_eq_unchanged h n (by omega) x (by omega) hf0

/-- a larger count: something was added below `n` -/
theorem nz_lt_changed {f g : Nat → Nat} (h : ∀ x, f x ≠ 0 → g x = f x) :
    ∀ n, nz f n < nz g n → ∃ x, x < n ∧ f x = 0 ∧ g x ≠ 0
  | 0, hl => by simp [nz] at hl
  | n+1, hl => by
    simp only [nz] at hl
    by_cases hfn : f n ≠ 0
    · have hgn : g n ≠ 0 := by rw [h n hfn]; exact hfn
      rw [if_pos hfn, if_pos hgn] at hl
      obtain ⟨x, hx, h1, h2⟩ := nz_lt_changed h n (by omega)
      exact ⟨x, by omega, h1, h2⟩
    · by_cases hgn : g n ≠ 0
      · exact ⟨n, by omega, Decidable.not_not.mp hfn, hgn⟩
      · rw [if_neg hfn, if_neg hgn] at hl
        obtain ⟨x, hx, h1, h2⟩ := nz_lt_changed h n (by omega)
        exact ⟨x, by omega, h1, h2⟩

/-! ## the rescan loops -/

/-- what the scans preserve, relative to the state `(ids0, size0)`; `C` is any set of objects closed under minimal cells -/
structure Inv (C : Nat → Prop) (gid n : Nat) (ids0 : Nat → Nat) (size0 : Nat) (s : Scan) : Prop where
  mono : ∀ x, ids0 x ≠ 0 → s.ids x = ids0 x
  new : ∀ x, ids0 x = 0 → s.ids x = 0 ∨ (s.ids x = gid ∧ x < n)
  cnt : s.size + nz ids0 n = size0 + nz s.ids n
  conn : ∀ x, s.ids x = gid → C x

theorem Inv.refl {C : Nat → Prop} {gid n : Nat} {ids0 : Nat → Nat} {size0 : Nat} (nff : Option Nat)
    (hc : ∀ x, ids0 x = gid → C x) : Inv C gid n ids0 size0 ⟨ids0, size0, nff⟩ :=
  ⟨fun _ _ => rfl, fun _ h => Or.inl h, rfl, hc⟩

theorem Inv.nff {C : Nat → Prop} {gid n : Nat} {ids0 : Nat → Nat} {size0 : Nat} {s : Scan} (nff : Option Nat)
    (h : Inv C gid n ids0 size0 s) : Inv C gid n ids0 size0 ⟨s.ids, s.size, nff⟩ :=
  ⟨h.mono, h.new, h.cnt, h.conn⟩

section scans
variable (M : Mat) (md gid n : Nat) (C : Nat → Prop)
variable (hC : ∀ j k, j < n → k < n → C j → M j k = md → C k) (hg : gid ≠ 0)
include hC hg

theorem scanK_inv (j : Nat) (hjn : j < n) (ids0 : Nat → Nat) (size0 : Nat) :
    ∀ (f k : Nat) (s : Scan), k + f = n → Inv C gid n ids0 size0 s → s.ids j = gid →
      Inv C gid n ids0 size0 (scanK M md gid j f k s) ∧ (scanK M md gid j f k s).ids j = gid
  | 0, _, s, _, hi, hj => ⟨hi, hj⟩
  | f+1, k, s, hk, hi, hj => by
    unfold scanK
    by_cases hc : s.ids k = 0 ∧ M j k = md
    · rw [if_pos hc]
      apply scanK_inv j hjn ids0 size0 f (k+1) _ (by omega)
      · refine ⟨?_, ?_, ?_, ?_⟩
        · intro x hx
          have hxk : x ≠ k := by
            intro e; subst e
            have := hi.mono x hx
            rw [hc.1] at this; exact hx this.symm
          show upd s.ids k gid x = ids0 x
          rw [upd_other _ _ hxk]; exact hi.mono x hx
        · intro x hx
          show upd s.ids k gid x = 0 ∨ (upd s.ids k gid x = gid ∧ x < n)
          by_cases hxk : x = k
          · subst hxk; right; rw [upd_same]; exact ⟨rfl, by omega⟩
          · rw [upd_other _ _ hxk]; exact hi.new x hx
        · show s.size + 1 + nz ids0 n = size0 + nz (upd s.ids k gid) n
          rw [nz_upd_lt s.ids k gid hc.1 hg n (by omega)]
          have := hi.cnt; omega
        · intro x hx
          have hx' : upd s.ids k gid x = gid := hx
          by_cases hxk : x = k
          · subst hxk; exact hC j x hjn (by omega) (hi.conn j hj) hc.2
          · rw [upd_other _ _ hxk] at hx'; exact hi.conn x hx'
      · show upd s.ids k gid j = gid
        by_cases hjk : j = k
        · subst hjk; exact upd_same _ _ _
        · rw [upd_other _ _ hjk]; exact hj
    · rw [if_neg hc]
      exact scanK_inv j hjn ids0 size0 f (k+1) s (by omega) hi hj

theorem scanJ_inv (ids0 : Nat → Nat) (size0 : Nat) :
    ∀ (f j : Nat) (s : Scan), j + f ≤ n → Inv C gid n ids0 size0 s → Inv C gid n ids0 size0 (scanJ M md gid n f j s)
  | 0, _, _, _, hi => hi
  | f+1, j, s, hb, hi => by
    unfold scanJ
    by_cases hj : s.ids j = gid
    · rw [if_pos hj]
      exact scanJ_inv ids0 size0 f (j+1) _ (by omega)
        (scanK_inv M md gid n C hC hg j (by omega) ids0 size0 n 0 s (by omega) hi hj).1
    · rw [if_neg hj]
      exact scanJ_inv ids0 size0 f (j+1) s (by omega) hi

theorem pass_inv (ids0 : Nat → Nat) (size0 ff : Nat) (ids : Nat → Nat) (size : Nat)
    (h : Inv C gid n ids0 size0 ⟨ids, size, none⟩) : Inv C gid n ids0 size0 (pass M md gid n ff ids size) := by
  unfold pass
  by_cases hff : ff ≤ n
  · exact scanJ_inv M md gid n C hC hg ids0 size0 _ _ _ (by omega) h
  · have : n - ff = 0 := by omega
    rw [this]; exact h

theorem grow_inv (ids0 : Nat → Nat) (size0 : Nat) :
    ∀ (fuel ff : Nat) (ids : Nat → Nat) (size : Nat) (r : (Nat → Nat) × Nat),
      Inv C gid n ids0 size0 ⟨ids, size, none⟩ → grow M md gid n fuel ff ids size = some r →
      Inv C gid n ids0 size0 ⟨r.1, r.2, none⟩
  | 0, _, _, _, _, _, h => by simp [grow] at h
  | fuel+1, ff, ids, size, r, hi, h => by
    have hp := pass_inv M md gid n C hC hg ids0 size0 ff ids size hi
    unfold grow at h
    split at h
    · injection h with h; subst h; exact hp.nff none
    · exact grow_inv ids0 size0 fuel _ _ _ r (hp.nff none) h

end scans

/-! ### `newfirstfound` is set exactly when the group grew -/

def Grew (size0 : Nat) (s : Scan) : Prop := size0 ≤ s.size ∧ (s.nff.isSome → size0 < s.size)

theorem scanK_grew (M : Mat) (md gid j size0 : Nat) :
    ∀ (f k : Nat) (s : Scan), Grew size0 s → Grew size0 (scanK M md gid j f k s)
  | 0, _, _, h => h
  | f+1, k, s, h => by
    unfold scanK
    split
    · apply scanK_grew
      exact ⟨Nat.le_succ_of_le h.1, fun _ => Nat.lt_succ_of_le h.1⟩
    · exact scanK_grew M md gid j size0 f (k+1) s h

theorem scanJ_grew (M : Mat) (md gid n size0 : Nat) :
    ∀ (f j : Nat) (s : Scan), Grew size0 s → Grew size0 (scanJ M md gid n f j s)
  | 0, _, _, h => h
  | f+1, j, s, h => by
    unfold scanJ
    split
    · exact scanJ_grew M md gid n size0 f (j+1) _ (scanK_grew M md gid j size0 n 0 s h)
    · exact scanJ_grew M md gid n size0 f (j+1) s h

theorem pass_grew (M : Mat) (md gid n ff : Nat) (ids : Nat → Nat) (size : Nat)
    (h : (pass M md gid n ff ids size).nff.isSome) : size < (pass M md gid n ff ids size).size :=
  (scanJ_grew M md gid n size (n - ff) ff ⟨ids, size, none⟩ ⟨Nat.le_refl _, fun h => by simp at h⟩).2 h

/-- **the fuel of the `while (firstfound != -1)` loop suffices**: every pass that finds something groups at least one more
object, so `n + 1 - (number of grouped objects)` passes are enough; the model's `n + 1` always is -/
theorem grow_fuel (M : Mat) (md gid n : Nat) (hg : gid ≠ 0) :
    ∀ (fuel ff : Nat) (ids : Nat → Nat) (size : Nat), n < fuel + nz ids n →
      ∃ r, grow M md gid n fuel ff ids size = some r
  | 0, _, ids, _, h => by have := nz_le ids n; omega
  | fuel+1, ff, ids, size, h => by
    unfold grow
    split
    · exact ⟨_, rfl⟩
    · rename_i k hk
      have hp := pass_inv M md gid n (fun _ => True) (fun _ _ _ _ _ _ => trivial) hg ids size ff ids size
        (Inv.refl none (fun _ _ => trivial))
      have hgrew := pass_grew M md gid n ff ids size (by rw [hk]; rfl)
      have hc := hp.cnt
      exact grow_fuel M md gid n hg fuel k _ _ (by omega)

/-! ## the outer loop -/

/-- connected to `seed` through minimal-distance cells `M j k = md` -/
inductive Conn (M : Mat) (md seed : Nat) : Nat → Prop
  | base : Conn M md seed seed
  | step {j k : Nat} : Conn M md seed j → M j k = md → Conn M md seed k

structure OInv (M : Mat) (md n : Nat) (o : Out) : Prop where
  gpos : 1 ≤ o.gid
  bound : ∀ x, o.ids x < o.gid
  out : ∀ x, n ≤ x → o.ids x = 0
  two : ∀ g, 1 ≤ g → g < o.gid → ∃ a b, a ≠ b ∧ o.ids a = g ∧ o.ids b = g
  conn : ∀ g, 1 ≤ g → g < o.gid → ∃ seed, o.ids seed = g ∧ ∀ x, o.ids x = g → Conn M md seed x
  count : 2 * (o.gid - 1) ≤ nz o.ids n

theorem OInv.init (M : Mat) (md n : Nat) : OInv M md n outInit :=
  ⟨Nat.le_refl 1, fun _ => Nat.zero_lt_one, fun _ _ => rfl, fun g h1 h2 => by simp [outInit] at h2; omega,
   fun g h1 h2 => by simp [outInit] at h2; omega, by simp [outInit]⟩

theorem outerStep_inv (M : Mat) (md n i : Nat) (hi : i < n) (o : Out) (h : OInv M md n o) : OInv M md n (outerStep M md n i o) := by
  unfold outerStep
  by_cases h0 : o.ids i ≠ 0
  · rw [if_pos h0]; exact h
  · rw [if_neg h0]
    have h0 : o.ids i = 0 := Decidable.not_not.mp h0
    have hg : o.gid ≠ 0 := by have := h.gpos; omega
    have hnz1 : nz (upd o.ids i o.gid) n = nz o.ids n + 1 := nz_upd_lt o.ids i o.gid h0 hg n hi
    obtain ⟨r, hr⟩ := grow_fuel M md o.gid n hg (n + 1) i (upd o.ids i o.gid) 1 (by omega)
    rw [hr]
    have hbase : Inv (Conn M md i) o.gid n (upd o.ids i o.gid) 1 ⟨upd o.ids i o.gid, 1, none⟩ := by
      apply Inv.refl
      intro x hx
      by_cases hxi : x = i
      · subst hxi; exact Conn.base
      · rw [upd_other _ _ hxi] at hx
        have := h.bound x; omega
    have hI := grow_inv M md o.gid n (Conn M md i) (fun j k _ _ hj hm => Conn.step hj hm) hg (upd o.ids i o.gid) 1
      (n + 1) i (upd o.ids i o.gid) 1 r hbase hr
    obtain ⟨ids', size'⟩ := r
    have hmono : ∀ x, upd o.ids i o.gid x ≠ 0 → ids' x = upd o.ids i o.gid x := hI.mono
    have hnew : ∀ x, upd o.ids i o.gid x = 0 → ids' x = 0 ∨ (ids' x = o.gid ∧ x < n) := hI.new
    have hcnt : size' + nz (upd o.ids i o.gid) n = 1 + nz ids' n := hI.cnt
    have hle := nz_mono hmono n
    have hii : ids' i = o.gid := by
      have := hmono i (by rw [upd_same]; exact hg)
      rw [this, upd_same]
    -- objects other than `i`: unchanged, or newly put into group `gid`
    have hother : ∀ x, x ≠ i → (ids' x = o.ids x) ∨ (o.ids x = 0 ∧ ids' x = o.gid ∧ x < n) := by
      intro x hx
      by_cases hz : o.ids x = 0
      · have hz' : upd o.ids i o.gid x = 0 := by rw [upd_other _ _ hx]; exact hz
        rcases hnew x hz' with h1 | h1
        · left; rw [h1, hz]
        · right; exact ⟨hz, h1.1, h1.2⟩
      · left
        have := hmono x (by rw [upd_other _ _ hx]; exact hz)
        rw [this, upd_other _ _ hx]
    show OInv M md n (if size' = 1 then ⟨upd ids' i 0, o.gid, o.skipped + 1⟩ else ⟨ids', o.gid + 1, o.skipped⟩)
    by_cases hs : size' = 1
    · rw [if_pos hs]
      -- nothing was added: the cancelled state has the ids of `o`
      have hsame : ∀ x, upd ids' i 0 x = o.ids x := by
        intro x
        by_cases hx : x = i
        · subst hx; rw [upd_same, h0]
        · rw [upd_other _ _ hx]
          rcases hother x hx with h1 | ⟨hz, h1, hxn⟩
          · exact h1
          · have hun := nz_eq_unchanged hmono n (by omega) x hxn (by rw [upd_other _ _ hx]; exact hz)
            rw [hun, hz]
      have hfe : upd ids' i 0 = o.ids := funext hsame
      exact ⟨h.gpos, by rw [hfe]; exact h.bound, by rw [hfe]; exact h.out, by rw [hfe]; exact h.two,
             by rw [hfe]; exact h.conn, by rw [hfe]; exact h.count⟩
    · rw [if_neg hs]
      have hbig : nz (upd o.ids i o.gid) n < nz ids' n := by omega
      obtain ⟨b, hbn, hb0, hb1⟩ := nz_lt_changed hmono n hbig
      have hbi : b ≠ i := by intro e; subst e; rw [upd_same] at hb0; exact hg hb0
      have hbg : ids' b = o.gid := by
        rcases hnew b hb0 with h1 | h1
        · exact absurd h1 hb1
        · exact h1.1
      refine ⟨by show 1 ≤ o.gid + 1; omega, ?_, ?_, ?_, ?_, ?_⟩
      · intro x
        show ids' x < o.gid + 1
        by_cases hx : x = i
        · subst hx; omega
        · rcases hother x hx with h1 | ⟨_, h1, _⟩
          · have := h.bound x; omega
          · omega
      · intro x hx
        show ids' x = 0
        have hxi : x ≠ i := by omega
        rcases hother x hxi with h1 | ⟨_, _, h3⟩
        · rw [h1]; exact h.out x hx
        · omega
      · intro g hg1 hg2
        show ∃ a b, a ≠ b ∧ ids' a = g ∧ ids' b = g
        have hg2 : g < o.gid + 1 := hg2
        by_cases hgg : g = o.gid
        · subst hgg; exact ⟨i, b, fun e => hbi e.symm, hii, hbg⟩
        · obtain ⟨a, c, hac, ha, hc⟩ := h.two g hg1 (by omega)
          have keep : ∀ x, o.ids x = g → ids' x = g := by
            intro x hx
            have hxi : x ≠ i := by intro e; subst e; omega
            rcases hother x hxi with h1 | ⟨hz, _, _⟩
            · rw [h1]; exact hx
            · omega
          exact ⟨a, c, hac, keep a ha, keep c hc⟩
      · intro g hg1 hg2
        show ∃ seed, ids' seed = g ∧ ∀ x, ids' x = g → Conn M md seed x
        have hg2 : g < o.gid + 1 := hg2
        by_cases hgg : g = o.gid
        · subst hgg; exact ⟨i, hii, hI.conn⟩
        · obtain ⟨seed, hs1, hs2⟩ := h.conn g hg1 (by omega)
          have hsi : seed ≠ i := by intro e; subst e; omega
          refine ⟨seed, ?_, ?_⟩
          · rcases hother seed hsi with h1 | ⟨hz, _, _⟩
            · rw [h1]; exact hs1
            · omega
          · intro x hx
            have hxi : x ≠ i := by intro e; subst e; omega
            rcases hother x hxi with h1 | ⟨_, h1, _⟩
            · exact hs2 x (by rw [← h1]; exact hx)
            · omega
      · show 2 * (o.gid + 1 - 1) ≤ nz ids' n
        have := h.count; omega

theorem outer_inv (M : Mat) (md n : Nat) :
    ∀ (f i : Nat) (o : Out), i + f ≤ n → OInv M md n o → OInv M md n (outer M md n f i o)
  | 0, _, _, _, h => h
  | f+1, i, o, hb, h => outer_inv M md n f (i+1) _ (by omega) (outerStep_inv M md n i (by omega) o h)

/-- the state after the outer loop of `hwloc__find_groups_by_min_distance` -/
theorem outer_final (M : Mat) (n : Nat) : OInv M (minDist M n) n (outer M (minDist M n) n n 0 outInit) :=
  outer_inv M _ n n 0 _ (by omega) (OInv.init M _ n)

/-! ## `findGroups` -/

/-- whenever groups are returned: ids are `≤ nb`, objects `≥ n` have none, every id `1..nb` has at least two members, each class is
connected through minimal-distance cells from one seed, and there are at most `n / 2` groups -/
theorem findGroups_spec (M : Mat) (n : Nat) (hnb : (findGroups M n).1 ≠ 0) :
    (∀ x, (findGroups M n).2 x ≤ (findGroups M n).1) ∧
    (∀ x, n ≤ x → (findGroups M n).2 x = 0) ∧
    (∀ g, 1 ≤ g → g ≤ (findGroups M n).1 → ∃ a b, a ≠ b ∧ a < n ∧ b < n ∧ (findGroups M n).2 a = g ∧ (findGroups M n).2 b = g) ∧
    (∀ g, 1 ≤ g → g ≤ (findGroups M n).1 →
       ∃ seed, (findGroups M n).2 seed = g ∧ ∀ x, (findGroups M n).2 x = g → Conn M (minDist M n) seed x) ∧
    2 * (findGroups M n).1 ≤ n := by
  have hO := outer_final M n
  unfold findGroups at hnb ⊢
  by_cases h1 : minDist M n = U64MAX
  · rw [if_pos h1] at hnb; exact absurd rfl hnb
  · rw [if_neg h1] at hnb ⊢
    simp only at hnb ⊢
    by_cases h2 : (outer M (minDist M n) n n 0 outInit).gid = 2 ∧ (outer M (minDist M n) n n 0 outInit).skipped = 0
    · rw [if_pos h2] at hnb; exact absurd rfl hnb
    · rw [if_neg h2] at hnb ⊢
      simp only at hnb ⊢
      have hlt : ∀ x, x < n ∨ (outer M (minDist M n) n n 0 outInit).ids x = 0 := fun x => by
        by_cases hx : x < n
        · exact Or.inl hx
        · exact Or.inr (hO.out x (by omega))
      refine ⟨fun x => by have := hO.bound x; omega, hO.out, ?_, ?_, ?_⟩
      · intro g hg1 hg2
        obtain ⟨a, b, hab, ha, hb⟩ := hO.two g hg1 (by omega)
        refine ⟨a, b, hab, ?_, ?_, ha, hb⟩
        · rcases hlt a with h | h
          · exact h
          · omega
        · rcases hlt b with h | h
          · exact h
          · omega
      · intro g hg1 hg2
        exact hO.conn g hg1 (by omega)
      · have := hO.count; have := nz_le (outer M (minDist M n) n n 0 outInit).ids n; omega

/-- **a round at least halves the number of objects** (so the recursion of `hwloc__groups_by_distances` terminates) -/
theorem findGroups_halves (M : Mat) (n : Nat) : 2 * (findGroups M n).1 ≤ n := by
  by_cases h : (findGroups M n).1 = 0
  · omega
  · exact (findGroups_spec M n h).2.2.2.2

theorem tryGroups_halves (M : Mat) (n : Nat) (b : Bool) : 2 * (tryGroups M n b).1 ≤ n := by
  unfold tryGroups; split
  · simp
  · exact findGroups_halves M n

/-- **the fuel of the recursion suffices**: any two fuels `≥ n` give the same rounds -/
theorem rounds_fuel (kind : Nat) : ∀ (f1 f2 n : Nat) (M : Mat) (b : Bool), n ≤ f1 → n ≤ f2 →
    rounds kind f1 n M b = rounds kind f2 n M b
  | 0, 0, _, _, _, _, _ => rfl
  | 0, f2+1, n, M, b, h1, _ => by
    have : n ≤ 2 := by omega
    simp [rounds, this]
  | f1+1, 0, n, M, b, _, h2 => by
    have : n ≤ 2 := by omega
    simp [rounds, this]
  | f1+1, f2+1, n, M, b, h1, h2 => by
    unfold rounds
    by_cases hn : n ≤ 2
    · simp [hn]
    · rw [if_neg hn, if_neg hn]
      split
      · rfl
      · have hh := tryGroups_halves M n b
        simp only
        split
        · rfl
        · rw [rounds_fuel kind f1 f2 (tryGroups M n b).1 _ false (by omega) (by omega)]

/-- no grouping at all: at most two objects, a kind without LATENCY / HOPS, or a first matrix that fails the validity check -/
theorem rounds_refused (kind f n : Nat) (M : Mat) (b : Bool)
    (h : n ≤ 2 ∨ kind &&& KIND_GROUPABLE = 0 ∨ (b = true ∧ checkMatrix M n = false)) : rounds kind f n M b = [] := by
  cases f with
  | zero => rfl
  | succ f =>
    unfold rounds
    by_cases h1 : n ≤ 2
    · rw [if_pos h1]
    · rw [if_neg h1]
      by_cases h2 : kind &&& KIND_GROUPABLE = 0
      · rw [if_pos h2]
      · rw [if_neg h2]
        rcases h with h | h | ⟨hb, hc⟩
        · exact absurd h h1
        · exact absurd h h2
        · have : (tryGroups M n b).1 = 0 := by unfold tryGroups; rw [hb, hc]; rfl
          simp only [this, if_true]

end Hw.Grouping
