/-
  Hw.Attr.GroupingWalk — the part of `hwloc__groups_by_distances` that creates and inserts the Groups, composed with the model of
  `hwloc_topology_insert_group_object` (Hw.Topo.Insert): one call (`insertStep`), the Groups of one round (`insertRound`), all the
  rounds (`walk`: a round in which an insertion returned NULL is the last one, otherwise the objects of the next round are the
  Groups just inserted — or the objects they were merged into, which have the same cpuset).

  Theorem: on a laminar tree the whole walk leaves a laminar tree with the same root set, for every matrix, every object list and
  every environment (`walk_lam`); in particular the post-insertion fix-up `fixOrder` (`hwloc_obj_add_children_sets` +
  `hwloc__reorder_children_if_needed`) keeps laminarity (`fixOrder_lam`).
-/
import Hw.Attr.GroupingSets
import Hw.Topo.InsertSort
namespace Hw.Grouping
open Hw.Topo Hw.Topo.Ins

/-! ## `fixOrder` keeps the tree laminar -/

theorem fixOrderL_eq_map (gp : Nat) : ∀ l : List T, fixOrderL gp l = l.map (fixOrder gp)
  | [] => by simp [fixOrderL]
  | c :: cs => by rw [fixOrderL, fixOrderL_eq_map gp cs]; rfl

theorem addChildrenSets_key (c : T) : (addChildrenSets c).o.key = c.o.key := by cases c; rfl

theorem addChildrenSets_lam (c : T) (h : Lam c) : Lam (addChildrenSets c) := by
  cases c with
  | node o kids =>
    cases h with
    | mk h1 h2 h3 => exact .mk h1 h2 h3

theorem fixOrder_key (gp : Nat) (t : T) : (fixOrder gp t).o.key = t.o.key := by
  cases t with
  | node o kids => unfold fixOrder; split <;> rfl

theorem lam_map_keys {o : IObj} {kids : List T} (g : T → T) (h : Lam (.node o kids))
    (hg : ∀ c ∈ kids, (g c).o.key = c.o.key ∧ Lam (g c)) : Lam (.node o (kids.map g)) := by
  refine .mk ?_ ?_ ?_
  · intro c hc
    obtain ⟨c0, hc0, rfl⟩ := List.mem_map.mp hc
    rw [(hg c0 hc0).1]; exact h.kids_sub c0 hc0
  · rw [List.pairwise_map]
    have hp := h.kids_pw
    -- keys are unchanged on members; pairwise over members only
    have : ∀ (l : List T), (∀ c ∈ l, (g c).o.key = c.o.key) → l.Pairwise DJ → l.Pairwise (fun a b => DJ (g a) (g b)) := by
      intro l
      induction l with
      | nil => intro _ _; exact List.Pairwise.nil
      | cons x xs ih =>
        intro hk hpw
        have hx := List.pairwise_cons.mp hpw
        refine List.pairwise_cons.mpr ⟨?_, ih (fun c hc => hk c (List.mem_cons_of_mem _ hc)) hx.2⟩
        intro y hy
        show dj (g x).o.key (g y).o.key
        rw [hk x (List.mem_cons_self ..), hk y (List.mem_cons_of_mem _ hy)]
        exact hx.1 y hy
    exact this kids (fun c hc => (hg c hc).1) hp
  · intro c hc
    obtain ⟨c0, hc0, rfl⟩ := List.mem_map.mp hc
    exact (hg c0 hc0).2

theorem lam_perm {o : IObj} {l l' : List T} (h : Lam (.node o l)) (p : l'.Perm l) : Lam (.node o l') :=
  .mk (fun c hc => h.kids_sub c (p.mem_iff.mp hc))
      ((p.pairwise_iff (fun h => DJ_symm h)).mpr h.kids_pw)
      (fun c hc => h.kids_lam c (p.mem_iff.mp hc))

theorem fixOrder_lam_aux (gp : Nat) : ∀ (N : Nat) (t : T), size t < N → Lam t → Lam (fixOrder gp t) := by
  intro N
  induction N with
  | zero => intro t h; exact absurd h (Nat.not_lt_zero _)
  | succ N ih =>
    intro t hsz h
    cases t with
    | node o kids =>
      unfold fixOrder
      split
      · apply lam_perm _ (reorderIfNeeded_sorted _).2
        apply lam_map_keys _ h
        intro c hc
        split
        · exact ⟨addChildrenSets_key c, addChildrenSets_lam c (h.kids_lam c hc)⟩
        · exact ⟨rfl, h.kids_lam c hc⟩
      · rw [fixOrderL_eq_map]
        apply lam_map_keys _ h
        intro c hc
        refine ⟨fixOrder_key gp c, ih c ?_ (h.kids_lam c hc)⟩
        have := sizeL_mem hc
        rw [size_node] at hsz; omega

/-- `hwloc_obj_add_children_sets(res)` + `hwloc__reorder_children_if_needed(res->parent)` keep the tree laminar -/
theorem fixOrder_lam (gp : Nat) (t : T) (h : Lam t) : Lam (fixOrder gp t) :=
  fixOrder_lam_aux gp (size t + 1) t (Nat.lt_succ_self _) h

/-! ## the walk -/

/-- what `hwloc_topology_insert_group_object` takes from the topology -/
structure GEnv where
  filterGroup : Nat
  rootCpuset : Nat
  rootNodeset : Nat
  numas : List (Nat × Nat)

def isGroupIn (t : T) (g : Nat) : Bool := (objsT t).any (fun o => o.gp == g && o.type == tGROUP)

/-- one `hwloc_topology_insert_group_object(topology, group_obj)` of the grouping code (the Group's nodesets were dropped before):
the tree after the call, and whether it returned NULL (`failed++`) -/
def insertStep (e : GEnv) (t : T) (o : IObj) : T × Bool :=
  match insertGroup e.filterGroup e.rootCpuset e.rootNodeset e.numas t o.gp
      { cpuset := some o.key, nodeset := none, dm := false, kind := o.kind, subkind := o.subkind } with
  | .einval => (t, true)
  | .mergedRoot => (t, false)
  | .core _ (.inserted t') => (fixOrder o.gp t', false)
  | .core _ (.merged t' g) => (if isGroupIn t g then fixOrder g t' else t', false)
  | .core _ (.failed t') => (t', true)
  | .core _ .stuck => (t, true)                    -- unreachable on laminar trees (`insertGroup_good`)

/-- the Groups of one round, in order; the flag says whether some insertion returned NULL -/
def insertRound (e : GEnv) : T → List IObj → T × Bool
  | t, [] => (t, false)
  | t, o :: os => ((insertRound e (insertStep e t o).1 os).1, (insertStep e t o).2 || (insertRound e (insertStep e t o).1 os).2)

/-- all rounds: the tree after the commit and `grouping_next_subkind` after it -/
def walk (e : GEnv) : List Round → (sets : Nat → Nat) → (subkind base : Nat) → T → T × Nat
  | [], _, sk, _, t => (t, sk)
  | r :: rs, sets, sk, base, t =>
    if (insertRound e t (roundObjs sets r sk base)).2 then ((insertRound e t (roundObjs sets r sk base)).1, sk + 1)
    else walk e rs (fun g => ((roundObjs sets r sk base).map (·.key)).getD g 0) (sk + 1) (base + r.nb)
           (insertRound e t (roundObjs sets r sk base)).1

theorem insertStep_lam (e : GEnv) (t : T) (o : IObj) (h : Lam t) :
    Lam (insertStep e t o).1 ∧ (insertStep e t o).1.o.key = t.o.key := by
  unfold insertStep
  split
  · exact ⟨h, rfl⟩
  · exact ⟨h, rfl⟩
  · rename_i key t' heq
    have hg := insertGroup_good _ _ _ _ t o.gp _ h key _ heq
    exact ⟨fixOrder_lam _ _ hg.1, by rw [fixOrder_key]; exact hg.2.1⟩
  · rename_i key t' g heq
    have hg := insertGroup_good _ _ _ _ t o.gp _ h key _ heq
    split
    · exact ⟨fixOrder_lam _ _ hg.1, by rw [fixOrder_key]; exact hg.2.1⟩
    · exact ⟨hg.1, hg.2.1⟩
  · rename_i key t' heq
    have hg := insertGroup_good _ _ _ _ t o.gp _ h key _ heq
    exact ⟨hg.1, hg.2.1⟩
  · exact ⟨h, rfl⟩

theorem insertRound_lam (e : GEnv) : ∀ (os : List IObj) (t : T), Lam t →
    Lam (insertRound e t os).1 ∧ (insertRound e t os).1.o.key = t.o.key
  | [], _, h => ⟨h, rfl⟩
  | o :: os, t, h => by
    have h1 := insertStep_lam e t o h
    have h2 := insertRound_lam e os _ h1.1
    exact ⟨h2.1, by rw [insertRound]; exact h2.2.trans h1.2⟩

/-- **the whole grouping of one commit keeps the tree laminar**, whatever the rounds, the sets and the environment -/
theorem walk_lam (e : GEnv) : ∀ (rs : List Round) (sets : Nat → Nat) (sk base : Nat) (t : T), Lam t →
    Lam (walk e rs sets sk base t).1 ∧ (walk e rs sets sk base t).1.o.key = t.o.key
  | [], _, _, _, _, h => ⟨h, rfl⟩
  | r :: rs, sets, sk, base, t, h => by
    have h1 := insertRound_lam e (roundObjs sets r sk base) t h
    unfold walk
    split
    · exact h1
    · have h2 := walk_lam e rs (fun g => ((roundObjs sets r sk base).map (·.key)).getD g 0) (sk + 1) (base + r.nb) _ h1.1
      exact ⟨h2.1, h2.2.trans h1.2⟩

/-- `grouping_next_subkind` advances by the number of rounds that created Groups -/
theorem walk_subkind_le (e : GEnv) : ∀ (rs : List Round) (sets : Nat → Nat) (sk base : Nat) (t : T),
    sk ≤ (walk e rs sets sk base t).2 ∧ (walk e rs sets sk base t).2 ≤ sk + rs.length
  | [], _, _, _, _ => ⟨Nat.le_refl _, Nat.le_refl _⟩
  | r :: rs, sets, sk, base, t => by
    unfold walk
    split
    · simp only [List.length_cons]; omega
    · have := walk_subkind_le e rs (fun g => ((roundObjs sets r sk base).map (·.key)).getD g 0) (sk + 1) (base + r.nb)
        (insertRound e t (roundObjs sets r sk base)).1
      simp only [List.length_cons]; omega

end Hw.Grouping
