/-
  Pointer-level model of `hwloc_internal_distances_refresh()` (hwloc/distances.c:833-856): the loop that walks
  the doubly linked list `topology->first_dist .. topology->last_dist` of internal distances structures, asks
  `hwloc_internal_distances_refresh_one()` for each element and UNLINKS + FREES the elements that "became
  useless" (fewer than 2 of their objects still exist) while iterating.

  This is the code that runs at the end of every `hwloc_topology_load()` (topology.c:4459), hence on every
  XML import that carried <distances2>/<distances2hetero> elements: elements whose <indexes> name objects that
  do not exist (or that a type filter removed) are dropped here.  The abstract model `Hw.Attr.Distances`
  (`refreshList = filterMap`) cannot see the links; this one has them: a heap of nodes addressed by `Nat`
  with `next`/`prev` fields, a `freed` mark, and `first`/`last` of the topology.  EVERY field read or write
  of a node checks the `freed` mark (`.error (.uaf p)` = use after free, `.error (.dfree p)` = double free),
  so "memory safe" is "returns `.ok`".

      for(dist = topology->first_dist; dist; dist = next) {
        next = dist->next;
        if (hwloc_internal_distances_refresh_one(topology, dist) < 0) {
          if (dist->prev) dist->prev->next = next; else topology->first_dist = next;
          if (next) next->prev = dist->prev;       else topology->last_dist = dist->prev;
          hwloc_internal_distances_free(dist);
          continue;
        }
      }

  `running = false` is the source as it is (the predecessor is re-read from `dist->prev`).  `running = true`
  is the variant that keeps the predecessor in a loop-local variable advanced by the for-increment
  (`prev = dist`): after a drop the local points to the node that was just freed, so dropping the NEXT node
  too writes into freed memory.  It is kept as a negative lemma (the model must be able to tell them apart).
-/
namespace Hw.DistRefresh

structure Heap where
  next  : Nat → Option Nat
  prev  : Nat → Option Nat
  freed : Nat → Bool
  first : Option Nat
  last  : Option Nat

inductive Err where
  | uaf (p : Nat)      -- a field of a freed node is read or written
  | dfree (p : Nat)    -- a freed node is freed again
  | fuel
  deriving DecidableEq, Repr

abbrev M := Except Err

def rdNext (h : Heap) (p : Nat) : M (Option Nat) := if h.freed p then .error (.uaf p) else .ok (h.next p)
def rdPrev (h : Heap) (p : Nat) : M (Option Nat) := if h.freed p then .error (.uaf p) else .ok (h.prev p)
def wrNext (h : Heap) (p : Nat) (v : Option Nat) : M Heap :=
  if h.freed p then .error (.uaf p) else .ok { h with next := fun q => if q = p then v else h.next q }
def wrPrev (h : Heap) (p : Nat) (v : Option Nat) : M Heap :=
  if h.freed p then .error (.uaf p) else .ok { h with prev := fun q => if q = p then v else h.prev q }
def free (h : Heap) (p : Nat) : M Heap :=
  if h.freed p then .error (.dfree p) else .ok { h with freed := fun q => if q = p then true else h.freed q }

/-- the body of the `if (refresh_one < 0)` block, `pv` = the predecessor the code uses -/
def unlink (h : Heap) (d : Nat) (pv nx : Option Nat) : M Heap := do
  let h1 ← match pv with
    | some p => wrNext h p nx
    | none => pure { h with first := nx }
  let h2 ← match nx with
    | some n => wrPrev h1 n pv
    | none => pure { h1 with last := pv }
  free h2 d

/-- the loop; `pl` = the loop-local predecessor of the `running` variant; `drop d` = `refresh_one(d) < 0` -/
def loop (running : Bool) (drop : Nat → Bool) : (fuel : Nat) → Heap → (pl dist : Option Nat) → M Heap
  | _, h, _, none => .ok h
  | 0, _, _, some _ => .error .fuel
  | fuel + 1, h, pl, some d => do
      let nx ← rdNext h d
      if drop d then
        let pv ← if running then pure pl else rdPrev h d
        let h' ← unlink h d pv nx
        loop running drop fuel h' (some d) nx
      else
        loop running drop fuel h (some d) nx

def refresh (running : Bool) (drop : Nat → Bool) (h : Heap) (fuel : Nat) : M Heap :=
  loop running drop fuel h none h.first

/-- `Chain h p l`: the nodes of `l` are live and linked in this order, the first one having predecessor `p` -/
def Chain (h : Heap) : Option Nat → List Nat → Prop
  | _, [] => True
  | p, a :: l => h.freed a = false ∧ h.prev a = p ∧ h.next a = l.head? ∧ Chain h (some a) l

/-- the topology's list is exactly `l`: first/last, every next and every prev agree with `l`, all live -/
def Linked (h : Heap) (l : List Nat) : Prop :=
  l.Nodup ∧ h.first = l.head? ∧ h.last = l.getLast? ∧ Chain h none l

/-- a heap holding exactly the list `l` (for the concrete witnesses) -/
def mk (l : List Nat) : Heap :=
  { next := fun p => match l.idxOf? p with | some i => l[i + 1]? | none => none
    prev := fun p => match l.idxOf? p with | some i => if i = 0 then none else l[i - 1]? | none => none
    freed := fun _ => false
    first := l.head?
    last := l.getLast? }

/-- decidable view of a heap on the nodes `0..n-1` -/
def view (h : Heap) (n : Nat) : List (Option Nat × Option Nat × Bool) × Option Nat × Option Nat :=
  ((List.range n).map (fun p => (h.next p, h.prev p, h.freed p)), h.first, h.last)

/-- walk from `first` along `next` (what every later consumer does: distances_get, export, dup, destroy) -/
def walk (h : Heap) : (fuel : Nat) → Option Nat → M (List Nat)
  | _, none => .ok []
  | 0, some _ => .error .fuel
  | fuel + 1, some d => do
      let nx ← rdNext h d
      let r ← walk h fuel nx
      pure (d :: r)

end Hw.DistRefresh
