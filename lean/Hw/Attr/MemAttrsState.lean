import Hw.Attr.MemAttrsLemmas
/-
  Hw.Attr.MemAttrsState — state-level lemmas (target lists, get-after-set on the attribute table).
-/
namespace Hw.MemAttrs

/-! ## E1. target lists -/

theorem matchTarget_congr {ty gp : Nat} {os : Option Nat} {t t' : Target}
    (h1 : t'.type = t.type) (h2 : t'.gp = t.gp) (h3 : t'.os = t.os) :
    matchTarget ty gp os t' = matchTarget ty gp os t := by
  unfold matchTarget
  rw [h1, h2, h3]

theorem matchTarget_setSlot (ty gp : Nat) (os : Option Nat) (ni : Bool) (q : Option Loc) (v : Nat)
    (t : Target) : matchTarget ty gp os (setSlot ni q v t) = matchTarget ty gp os t := by
  unfold setSlot
  cases ni with
  | true =>
    cases q with
    | none => rfl
    | some q => exact matchTarget_congr rfl rfl rfl
  | false => exact matchTarget_congr rfl rfl rfl

theorem findTarget_nil (ty gp : Nat) (os : Option Nat) : findTarget ty gp os [] = none := rfl

theorem findTarget_cons (ty gp : Nat) (os : Option Nat) (t : Target) (ts : List Target) :
    findTarget ty gp os (t :: ts) =
      if matchTarget ty gp os t then some t else findTarget ty gp os ts := by
  simp only [findTarget, List.find?_cons]
  cases matchTarget ty gp os t <;> simp

theorem matchTarget_default (ty gp : Nat) (os : Option Nat) :
    matchTarget ty gp os { type := ty, gp := gp, os := os, inits := [], noinit := 0 } = true := by
  simp [matchTarget]

theorem findTarget_updTarget_same (ty gp : Nat) (os : Option Nat) (f : Target → Target)
    (hf : ∀ t, matchTarget ty gp os (f t) = matchTarget ty gp os t) (ts : List Target) :
    findTarget ty gp os (updTarget ty gp os f ts) =
      some (f ((findTarget ty gp os ts).getD { type := ty, gp := gp, os := os, inits := [], noinit := 0 })) := by
  induction ts with
  | nil =>
    simp only [updTarget, findTarget_nil, Option.getD_none]
    rw [findTarget_cons, if_pos (by rw [hf, matchTarget_default])]
  | cons t ts ih =>
    simp only [updTarget]
    by_cases hm : matchTarget ty gp os t = true
    · rw [if_pos hm, findTarget_cons, if_pos (by rw [hf, hm]), findTarget_cons, if_pos hm]
      rfl
    · rw [if_neg hm, findTarget_cons, if_neg hm, findTarget_cons, if_neg hm]
      exact ih

/-- refresh never changes which key a surviving target answers to -/
theorem refreshTarget_key {e : Env} {ni : Bool} {t t' : Target} (h : refreshTarget e ni t = some t') :
    t'.type = t.type ∧ t'.gp = t.gp ∧ t'.os = t.os ∧ t'.noinit = t.noinit := by
  unfold refreshTarget at h
  by_cases hh : e.hasObj t.type t.gp = true
  · rw [if_pos hh] at h
    cases ni with
    | true =>
      simp only [if_true] at h
      by_cases he : (t.inits.filterMap (refreshInit e)).isEmpty = true
      · rw [if_pos he] at h; cases h
      · rw [if_neg he] at h; cases h; exact ⟨rfl, rfl, rfl, rfl⟩
    | false =>
      simp only [Bool.false_eq_true, if_false] at h
      cases h; exact ⟨rfl, rfl, rfl, rfl⟩
  · rw [if_neg hh] at h; cases h

/-- if the first stored target matching a key survives the refresh, it is still the first match afterwards -/
theorem findTarget_refresh (e : Env) (ni : Bool) (ty gp : Nat) (os : Option Nat) (ts : List Target)
    (t t' : Target)
    (h1 : findTarget ty gp os ts = some t) (h2 : refreshTarget e ni t = some t') :
    findTarget ty gp os (ts.filterMap (refreshTarget e ni)) = some t' := by
  induction ts with
  | nil => cases h1
  | cons s ts ih =>
    rw [findTarget_cons] at h1
    rw [List.filterMap_cons]
    by_cases hm : matchTarget ty gp os s = true
    · rw [if_pos hm] at h1
      cases h1
      rw [h2]
      simp only
      obtain ⟨k1, k2, k3, _⟩ := refreshTarget_key h2
      rw [findTarget_cons, if_pos (by rw [matchTarget_congr k1 k2 k3, hm])]
    · rw [if_neg hm] at h1
      cases hr : refreshTarget e ni s with
      | none => simp only; exact ih h1
      | some s' =>
        simp only
        obtain ⟨k1, k2, k3, _⟩ := refreshTarget_key hr
        rw [findTarget_cons, if_neg (by rw [matchTarget_congr k1 k2 k3]; exact hm)]
        exact ih h1

/-! ## E2. get after set on the attribute table -/

/-- what a caller may legitimately pass as initiator in topology `e` -/
def validArg (e : Env) (init : LocArg) : Prop := ∃ q, toInternal init = some q ∧ validQuery e q

theorem ensureValid_flags (e : Env) (a : Attr) : (ensureValid e a).flags = a.flags := by
  unfold ensureValid; split <;> rfl

theorem ensureValid_conv (e : Env) (a : Attr) : (ensureValid e a).conv = a.conv := by
  unfold ensureValid; split <;> rfl

theorem ensureValid_name (e : Env) (a : Attr) : (ensureValid e a).name = a.name := by
  unfold ensureValid; split <;> rfl

theorem ensureValid_needInit (e : Env) (a : Attr) : (ensureValid e a).needInit = a.needInit := by
  unfold Attr.needInit; rw [ensureValid_flags]

theorem ensureValid_valid (e : Env) (a : Attr) : (ensureValid e a).valid = true := by
  unfold ensureValid
  by_cases h : a.valid = true
  · rw [if_pos h]; exact h
  · rw [if_neg h]; rfl

theorem setAttr_conv (e : Env) (a : Attr) (ty gp : Nat) (os : Option Nat) (q : Option Loc) (v : Nat) :
    (setAttr e true a ty gp os q v).conv = a.conv := by
  simp only [setAttr, if_true, ensureValid_conv]

theorem setAttr_needInit (e : Env) (a : Attr) (ty gp : Nat) (os : Option Nat) (q : Option Loc) (v : Nat) :
    (setAttr e true a ty gp os q v).needInit = a.needInit := by
  simp only [setAttr, if_true, Attr.needInit, ensureValid_flags]

theorem setAttr_targets (e : Env) (a : Attr) (ty gp : Nat) (os : Option Nat) (q : Option Loc) (v : Nat) :
    (setAttr e true a ty gp os q v).targets =
      updTarget ty gp os (setSlot a.needInit q v) (ensureValid e a).targets := by
  simp only [setAttr, if_true, ensureValid_needInit]

theorem setAttr_valid (e : Env) (a : Attr) (ty gp : Nat) (os : Option Nat) (q : Option Loc) (v : Nat) :
    (setAttr e true a ty gp os q v).valid = !(findTarget ty gp os (ensureValid e a).targets).isNone := by
  simp only [setAttr, if_true, ensureValid_valid, Bool.true_and]

/-- the slot written by `setAttr` is the first match for its key afterwards -/
theorem findTarget_setAttr (e : Env) (a : Attr) (ty gp : Nat) (os : Option Nat) (q : Option Loc) (v : Nat) :
    findTarget ty gp os (setAttr e true a ty gp os q v).targets =
      some (setSlot a.needInit q v ((findTarget ty gp os (ensureValid e a).targets).getD
        { type := ty, gp := gp, os := os, inits := [], noinit := 0 })) := by
  rw [setAttr_targets]
  exact findTarget_updTarget_same ty gp os _ (fun t => matchTarget_setSlot ty gp os _ _ _ t) _

/-- after `setAttr`, the (possibly refreshed) attribute still has a first match for the key, and it
satisfies any property `P` that holds of the written slot, is kept by a refresh (`hkeep`) and makes a
target with this (type, gp) survive a refresh (`hsurv`).  The refresh only happens when the slot was
just created, hence has exactly (type, gp) = (ty, gp). -/
theorem findTarget_ensureValid_setAttr (e : Env) (a : Attr) (ty gp : Nat) (os : Option Nat)
    (q : Option Loc) (v : Nat)
    (P : Target → Prop)
    (hP : ∀ t, P (setSlot a.needInit q v t))
    (hkeep : ∀ t t', t.type = ty → t.gp = gp → P t → refreshTarget e a.needInit t = some t' → P t')
    (hsurv : ∀ t, t.type = ty → t.gp = gp → P t → ∃ t', refreshTarget e a.needInit t = some t') :
    ∃ t, findTarget ty gp os (ensureValid e (setAttr e true a ty gp os q v)).targets = some t ∧ P t := by
  have hf := findTarget_setAttr e a ty gp os q v
  unfold ensureValid
  by_cases hv : (setAttr e true a ty gp os q v).valid = true
  · rw [if_pos hv]
    exact ⟨_, hf, hP _⟩
  · rw [if_neg hv]
    rw [setAttr_valid] at hv
    have hnone : findTarget ty gp os (ensureValid e a).targets = none := by
      cases h : findTarget ty gp os (ensureValid e a).targets with
      | none => rfl
      | some t => rw [h] at hv; exact absurd rfl hv
    rw [hnone, Option.getD_none] at hf
    have hty : (setSlot a.needInit q v { type := ty, gp := gp, os := os, inits := [], noinit := 0 }).type = ty := by
      unfold setSlot; split
      · split <;> rfl
      · rfl
    have hgp : (setSlot a.needInit q v { type := ty, gp := gp, os := os, inits := [], noinit := 0 }).gp = gp := by
      unfold setSlot; split
      · split <;> rfl
      · rfl
    obtain ⟨t', ht'⟩ := hsurv _ hty hgp (hP _)
    refine ⟨t', ?_, hkeep _ _ hty hgp (hP _) ht'⟩
    show findTarget ty gp os ((setAttr e true a ty gp os q v).targets.filterMap
      (refreshTarget e (setAttr e true a ty gp os q v).needInit)) = some t'
    rw [setAttr_needInit]
    exact findTarget_refresh e _ ty gp os _ _ _ hf ht'

theorem getElem?_set_self_of_some {α : Type} {l : List α} {i : Nat} {a x : α} (h : l[i]? = some a) :
    (l.set i x)[i]? = some x := by
  have hlt : i < l.length := by
    rcases Nat.lt_or_ge i l.length with h' | h'
    · exact h'
    · rw [List.getElem?_eq_none h'] at h; cases h
  exact List.getElem?_set_self hlt

theorem getValue_of (e : Env) (tbl : Table) (id : Nat) (A : Attr) (o : Obj) (init : LocArg) (t : Target)
    (v : Nat) (h1 : tbl[id]? = some A) (h2 : A.conv = false)
    (h3 : findTarget o.type o.gp o.os (ensureValid e A).targets = some t)
    (h4 : targetValue (ensureValid e A).needInit init t = some v) :
    (getValue e tbl id (some o) init 0).2 = .ok v := by
  simp only [getValue, ne_eq, not_true_eq_false, if_false, h1, h2, Bool.false_eq_true, h3, h4]

theorem getValue_setValue_needInit (e : Env) (tbl : Table) (id : Nat) (a : Attr) (o : Obj) (init : LocArg)
    (v : Nat)
    (ha : tbl[id]? = some a) (hconv : a.conv = false) (hni : a.needInit = true)
    (ho : e.hasObj o.type o.gp = true) (hinit : validArg e init) :
    (setValue e tbl id (some o) init 0 v).2 = .ok () ∧
    (getValue e (setValue e tbl id (some o) init 0 v).1 id (some o) init 0).2 = .ok v := by
  obtain ⟨q, hq, hvq⟩ := hinit
  have hnn : init ≠ .null := by
    intro h; rw [h] at hq; cases hq
  have hset : setValue e tbl id (some o) init 0 v =
      (tbl.set id (setAttr e true a o.type o.gp o.os (some q) v), .ok ()) := by
    simp [setValue, ha, hconv, hni, hq, hnn]
  rw [hset]
  refine ⟨rfl, ?_⟩
  obtain ⟨t, ht, hPt⟩ := findTarget_ensureValid_setAttr e a o.type o.gp o.os (some q) v
    (fun t => (findInit q t.inits).map (·.value) = some v)
    (by
      intro t
      rw [hni]
      show (findInit q (setInit q v t.inits)).map (·.value) = some v
      exact findInit_setInit_same q v _)
    (by
      intro t t' _ _ hP hr
      rw [hni] at hr
      unfold refreshTarget at hr
      by_cases hh : e.hasObj t.type t.gp = true
      · rw [if_pos hh] at hr
        simp only [if_true] at hr
        by_cases he : (t.inits.filterMap (refreshInit e)).isEmpty = true
        · rw [if_pos he] at hr; cases hr
        · rw [if_neg he] at hr; cases hr
          show (findInit q (t.inits.filterMap (refreshInit e))).map (·.value) = some v
          rw [findInit_refresh e _ q hvq]; exact hP
      · rw [if_neg hh] at hr; cases hr)
    (by
      intro t hty hgp hP
      rw [hni]
      unfold refreshTarget
      rw [hty, hgp, if_pos ho]
      simp only [if_true]
      have hne : ¬ (t.inits.filterMap (refreshInit e)).isEmpty = true := by
        intro he
        rw [List.isEmpty_iff] at he
        have := findInit_refresh e t.inits q hvq
        rw [he, hP] at this
        cases this
      rw [if_neg hne]
      exact ⟨_, rfl⟩)
  apply getValue_of e _ id _ o init t v (getElem?_set_self_of_some ha) _ ht
  · rw [ensureValid_needInit, setAttr_needInit, hni]
    simp only [targetValue, if_true, hq]
    exact hPt
  · rw [setAttr_conv, hconv]

theorem getValue_setValue_noInit (e : Env) (tbl : Table) (id : Nat) (a : Attr) (o : Obj) (v : Nat)
    (ha : tbl[id]? = some a) (hconv : a.conv = false) (hni : a.needInit = false)
    (ho : e.hasObj o.type o.gp = true) :
    (setValue e tbl id (some o) .null 0 v).2 = .ok () ∧
    (getValue e (setValue e tbl id (some o) .null 0 v).1 id (some o) .null 0).2 = .ok v := by
  have hset : setValue e tbl id (some o) .null 0 v =
      (tbl.set id (setAttr e true a o.type o.gp o.os none v), .ok ()) := by
    simp [setValue, ha, hconv, hni, toInternal]
  rw [hset]
  refine ⟨rfl, ?_⟩
  obtain ⟨t, ht, hPt⟩ := findTarget_ensureValid_setAttr e a o.type o.gp o.os none v
    (fun t => t.noinit = v)
    (by intro t; rw [hni]; rfl)
    (by
      intro t t' _ _ hP hr
      rw [(refreshTarget_key hr).2.2.2]; exact hP)
    (by
      intro t hty hgp _
      rw [hni]
      unfold refreshTarget
      rw [hty, hgp, if_pos ho]
      exact ⟨_, rfl⟩)
  apply getValue_of e _ id _ o .null t v (getElem?_set_self_of_some ha) _ ht
  · rw [ensureValid_needInit, setAttr_needInit, hni]
    simp only [targetValue, Bool.false_eq_true, if_false]
    rw [hPt]
  · rw [setAttr_conv, hconv]

/-! ## E3. frame: other attributes are not affected -/

theorem setValue_fst_getElem?_ne (e : Env) (tbl : Table) (id id' : Nat) (tgt : Option Obj)
    (init : LocArg) (fl v : Nat) (h : id' ≠ id) :
    (setValue e tbl id tgt init fl v).1[id']? = tbl[id']? := by
  unfold setValue
  repeat' split
  all_goals first
    | rfl
    | exact List.getElem?_set_ne (Ne.symm h)

theorem getValue_snd_congr (e : Env) (tbl1 tbl2 : Table) (id : Nat) (o : Option Obj) (init : LocArg)
    (fl : Nat) (h : tbl1[id]? = tbl2[id]?) :
    (getValue e tbl1 id o init fl).2 = (getValue e tbl2 id o init fl).2 := by
  unfold getValue
  cases o with
  | none => rfl
  | some o =>
    simp only
    by_cases hf : fl ≠ 0
    · rw [if_pos hf, if_pos hf]
    · rw [if_neg hf, if_neg hf, h]
      cases tbl2[id]? with
      | none => rfl
      | some a =>
        simp only
        by_cases hc : a.conv = true
        · rw [if_pos hc, if_pos hc]
        · rw [if_neg hc, if_neg hc]
          cases findTarget o.type o.gp o.os (ensureValid e a).targets with
          | none => rfl
          | some t =>
            simp only
            cases targetValue (ensureValid e a).needInit init t <;> rfl

theorem getValue_setValue_other_attr (e : Env) (tbl : Table) (id id' : Nat) (tgt : Option Obj)
    (init : LocArg) (fl v : Nat) (o' : Option Obj) (init' : LocArg) (fl' : Nat) (h : id' ≠ id) :
    (getValue e (setValue e tbl id tgt init fl v).1 id' o' init' fl').2 =
      (getValue e tbl id' o' init' fl').2 :=
  getValue_snd_congr e _ _ id' o' init' fl' (setValue_fst_getElem?_ne e tbl id id' tgt init fl v h)

end Hw.MemAttrs
