/-
  Hw.Attr.CpuKinds — model of hwloc/cpukinds.c (C15).  Core Lean only.

  cpusets are finite sets of PU indexes, modelled as `Nat` bit masks (`Nat.testBit`).  The bitmap
  layer (word lists, `infinite` flag) is C03's business; here `hwloc_bitmap_compare_inclusion`,
  `and`, `andnot`, `iszero` appear through their set-level meaning.

  Modelled (literal order of the C loops, order of the kinds array, order of the info arrays):
    hwloc_internal_cpukinds_register   argument checks, capacity 2N+1 -> power of two >= 8,
                                       split (INTERSECTS/INCLUDED) / merge (CONTAINS/EQUAL) loop with the
                                       shrinking cpuset and early break, remainder kind, info union
                                       without exact duplicates, forced-efficiency overwrite rule
    hwloc_cpukinds_register            flags / NULL / empty checks, negative efficiency -> UNKNOWN,
                                       OVERWRITE flag, rank afterwards
    hwloc_internal_cpukinds_rank       every strategy selectable by HWLOC_CPUKINDS_RANKING, info summaries
                                       with the C `atoi` + unsigned (mod 2^32) arithmetic, duplicate check,
                                       sort + renumber, "failed" path
    hwloc_internal_cpukinds_restrict   and with the root cpuset, drop emptied kinds, rank iff one was dropped
    hwloc_internal_cpukinds_dup        exact-size copy
    XML export + import                re-registration of every exported kind into an empty array, rank at
                                       the end of load
    hwloc_cpukinds_get_nr/get_info/get_by_cpuset

  Array slots: `alloc` is `nr_cpukinds_allocated`; `stale` records, for the slots `nr, nr+1, ...`
  that `restrict`'s memmove left behind *without clearing them*, whether the `infos.array` pointer
  still stored there is non-NULL.  A later register that creates a new kind in such a slot starts from that stale `infos`
  (`staleHit`): undefined behaviour in C (use-after-free / double free, see Props/C15.lean,
  `C15_defect_stale_slot_reachable`).  Outside that input class the functions below are the C code.
-/
namespace Hw
namespace CpuKinds

abbrev Info := String × String

/-- `hwloc_bitmap_andnot` on finite sets -/
def andnot (a b : Nat) : Nat := a ^^^ (a &&& b)

/-- result of `hwloc_bitmap_compare_inclusion` -/
inductive Rel | equal | included | contains | intersects | different
deriving DecidableEq, Repr

/-- `hwloc_bitmap_compare_inclusion(a, b)` on finite sets (empty `a`, non-empty `b` is INCLUDED as in C) -/
def rel (a b : Nat) : Rel :=
  if a = b then .equal
  else if a &&& b = a then .included
  else if a &&& b = b then .contains
  else if a &&& b = 0 then .different
  else .intersects

/-- `struct hwloc_internal_cpukind_s` without `ranking_value` (always recomputed before use) -/
structure Kind where
  cpuset : Nat
  eff : Int        -- efficiency
  forced : Int     -- forced_efficiency
  infos : List Info
  dupd : Bool := false   -- went through hwloc_internal_cpukinds_dup: infos.array is non-NULL even when empty
deriving DecidableEq, Repr

/-- `infos.array != NULL` (this build: `calloc(0)` in `hwloc__tma_dup_infos` returns a non-NULL pointer) -/
def Kind.arrNonNull (k : Kind) : Bool := k.dupd || !k.infos.isEmpty

inductive Err | ok | einval | enoent | exdev
deriving DecidableEq, Repr

structure State where
  kinds : List Kind := []
  alloc : Nat := 0            -- nr_cpukinds_allocated
  stale : List Bool := []     -- `infos.array != NULL` left in slots nr, nr+1, .. by restrict's memmove
  root : Nat := 0             -- cpuset of the root object (what restrict intersects with)
deriving Repr

/-! ### infos -/

/-- `hwloc__cpukind_add_infos`: append every pair that is not already there (exact name+value match) -/
def addInfos (cur new : List Info) : List Info :=
  new.foldl (fun acc p => if acc.contains p then acc else acc ++ [p]) cur

/-! ### libc `atoi` as used on info values, then stored into an `unsigned` -/

def isSpace (c : Char) : Bool :=
  c = ' ' || c = '\t' || c = '\n' || c = '\x0b' || c = '\x0c' || c = '\r'

def digitsVal : List Char → Nat → Nat
  | [], acc => acc
  | c :: cs, acc => if c.isDigit then digitsVal cs (acc * 10 + (c.toNat - 48)) else acc

/-- `strtol(s, NULL, 10)` (clamped to `long`) -/
def strtol (s : String) : Int :=
  let cs := s.toList.dropWhile isSpace
  match cs with
  | '-' :: r => - (Int.ofNat (min (digitsVal r 0) 9223372036854775808))
  | '+' :: r => Int.ofNat (min (digitsVal r 0) 9223372036854775807)
  | r => Int.ofNat (min (digitsVal r 0) 9223372036854775807)

/-- `(unsigned) atoi(s)`: `atoi` is `(int) strtol`, both casts are reductions mod 2^32 -/
def atoiU32 (s : String) : Nat := (strtol s % 4294967296).toNat

/-! ### ranking -/

structure Summ where
  coreType : Nat := 0
  maxFreq : Nat := 0
  baseFreq : Nat := 0
deriving Repr

def summStep (s : Summ) (i : Info) : Summ :=
  if i.1 = "FrequencyMaxMHz" then { s with maxFreq := atoiU32 i.2 }
  else if i.1 = "FrequencyBaseMHz" then { s with baseFreq := atoiU32 i.2 }
  else if i.1 = "CoreType" then
    if i.2 = "IntelAtom" then { s with coreType := 1 }
    else if i.2 = "IntelCore" then { s with coreType := 2 }
    else s
  else s

/-- one entry of `hwloc__cpukinds_summarize_info` (calloc'ed, later infos overwrite earlier ones) -/
def summarize (k : Kind) : Summ := k.infos.foldl summStep {}

/-- `hwloc__cpukinds_check_duplicate_rankings` returns 0 -/
def dupFree : List Nat → Bool
  | [] => true
  | x :: xs => !xs.contains x && dupFree xs

/-- values of HWLOC_CPUKINDS_RANKING (`dflt` also for unset / unrecognised) -/
inductive Strategy
  | dflt | noForced | forced | coretypeFreq | coretypeFreqStrict | coretype | frequency | freqMax | freqBase | none
deriving DecidableEq, Repr

/-- the `getenv("HWLOC_CPUKINDS_RANKING")` strcmp chain; `none` = variable unset; unrecognised = default -/
def parseEnv : Option String → Strategy
  | none => .dflt
  | some "default" => .dflt
  | some "none" => .none
  | some "coretype+frequency" => .coretypeFreq
  | some "coretype+frequency_strict" => .coretypeFreqStrict
  | some "coretype" => .coretype
  | some "frequency" => .frequency
  | some "frequency_max" => .freqMax
  | some "frequency_base" => .freqBase
  | some "forced_efficiency" => .forced
  | some "no_forced_efficiency" => .noForced
  | some _ => .dflt

/-- `ranking_value = forced_efficiency` (int to uint64) -/
def forcedKey (k : Kind) : Nat := (k.forced % 18446744073709551616).toNat

/-- `hwloc__cpukinds_try_rank_by_forced_efficiency` -/
def tryForced (ks : List Kind) : Option (Kind → Nat) :=
  if ks.all (fun k => decide (k.forced ≠ -1)) && dupFree (ks.map forcedKey) then some forcedKey else none

/-- `(intel_core_type << 20) + freq` in `unsigned` arithmetic -/
def ctFreqKey (haveBase : Bool) (k : Kind) : Nat :=
  let s := summarize k
  ((s.coreType <<< 20) + (if haveBase then s.baseFreq else s.maxFreq)) % 4294967296

def ctKey (k : Kind) : Nat := ((summarize k).coreType <<< 20) % 4294967296
def freqKey (haveBase : Bool) (k : Kind) : Nat :=
  if haveBase then (summarize k).baseFreq else (summarize k).maxFreq

/-- `hwloc__cpukinds_try_rank_by_info` for the given heuristics (only the info-based ones reach it) -/
def tryInfo (h : Strategy) (ks : List Kind) : Option (Kind → Nat) :=
  let ss := ks.map summarize
  let haveMax := ss.all (fun s => decide (s.maxFreq ≠ 0))
  let haveBase := ss.all (fun s => decide (s.baseFreq ≠ 0))
  let haveCT := ss.all (fun s => decide (s.coreType ≠ 0))
  let fin (ok : Bool) (key : Kind → Nat) : Option (Kind → Nat) :=
    if ok && dupFree (ks.map key) then some key else none
  match h with
  | .coretypeFreqStrict => fin (haveCT && (haveMax || haveBase)) (ctFreqKey haveBase)
  | .coretypeFreq => fin (haveCT || haveMax || haveBase) (ctFreqKey haveBase)
  | .coretype => fin haveCT ctKey
  | .frequency => fin (haveMax || haveBase) (freqKey haveBase)
  | .freqMax => fin haveMax (freqKey false)
  | .freqBase => fin haveBase (freqKey true)
  | _ => none

/-- which ranking values `hwloc_internal_cpukinds_rank` ends up sorting by (`none` = label "failed") -/
def chooseKey (strat : Strategy) (ks : List Kind) : Option (Kind → Nat) :=
  match strat with
  | .dflt => match tryForced ks with
      | some k => some k
      | none => tryInfo .coretypeFreq ks
  | .noForced => tryInfo .coretypeFreq ks
  | .forced => tryForced ks
  | .none => none
  | h => tryInfo h ks

/-- insertion into a list sorted by `key`; `qsort` with pairwise distinct keys has a unique result -/
def insertBy (key : Kind → Nat) (k : Kind) : List Kind → List Kind
  | [] => [k]
  | x :: xs => if key k < key x then k :: x :: xs else x :: insertBy key k xs

def sortBy (key : Kind → Nat) : List Kind → List Kind
  | [] => []
  | k :: ks => insertBy key k (sortBy key ks)

/-- "define our own efficiency between 0 and N-1" -/
def renumber : Nat → List Kind → List Kind
  | _, [] => []
  | i, k :: ks => { k with eff := (i : Int) } :: renumber (i + 1) ks

def clearEff (ks : List Kind) : List Kind := ks.map (fun k => { k with eff := -1 })

/-- `hwloc__cpukinds_finalize_ranking` -/
def finalize (key : Kind → Nat) (ks : List Kind) : List Kind := renumber 0 (sortBy key ks)

/-- `hwloc_internal_cpukinds_rank` -/
def rank (strat : Strategy) (ks : List Kind) : List Kind :=
  match ks with
  | [] => []
  | [k] => [{ k with eff := 0 }]
  | _ => match chooseKey strat ks with
    | some key => finalize key ks
    | none => clearEff ks

/-! ### register -/

/-- `hwloc_flsl` on a non-negative value -/
def bitLen (x : Nat) : Nat := if x = 0 then 0 else Nat.log2 x + 1

/-- capacity demanded by a register on an array holding `nr` kinds -/
def capFor (nr : Nat) : Nat :=
  let m := 2 ^ (bitLen (2 * nr + 1 - 1) + 1)
  if m < 8 then 8 else m

/-- the loop `for(i=0; i<oldnr; i++)`: returns (old kinds after the loop, new kinds appended at
    `newnr++` in creation order, remaining cpuset).  The `break` on an emptied cpuset is tested at
    the top here (the C tests it at the bottom; the set is non-empty on entry). -/
def regLoop (forced : Int) (infos : List Info) (ovw : Bool) :
    List Kind → Nat → List Kind × List Kind × Nat
  | [], cs => ([], [], cs)
  | k :: ks, cs =>
    if cs = 0 then (k :: ks, [], 0)
    else match rel cs k.cpuset with
      | .intersects | .included =>
        let inter := cs &&& k.cpuset
        let nk : Kind := { cpuset := inter, eff := -1, forced := forced,
                           infos := addInfos (addInfos [] k.infos) infos }
        let k' : Kind := { k with cpuset := andnot k.cpuset inter }
        let r := regLoop forced infos ovw ks (andnot cs inter)
        (k' :: r.1, nk :: r.2.1, r.2.2)
      | .contains | .equal =>
        let k' : Kind := { k with infos := addInfos k.infos infos,
                                  forced := if ovw || k.forced = -1 then forced else k.forced }
        let r := regLoop forced infos ovw ks (andnot cs k.cpuset)
        (k' :: r.1, r.2.1, r.2.2)
      | .different =>
        let r := regLoop forced infos ovw ks cs
        (k :: r.1, r.2.1, r.2.2)

/-- kinds appended by a register: the split-off kinds, then the remainder kind if any -/
def regAdded (forced : Int) (infos : List Info) (ovw : Bool) (ks : List Kind) (cs : Nat) : List Kind :=
  let r := regLoop forced infos ovw ks cs
  r.2.1 ++ (if r.2.2 = 0 then [] else
    [{ cpuset := r.2.2, eff := -1, forced := forced, infos := addInfos [] infos }])

/-- `hwloc_internal_cpukinds_register` (flags: bit 0 = OVERWRITE_FORCED_EFFICIENCY) -/
def internalRegister (st : State) (cs : Nat) (forced : Int) (infos : List Info) (flags : Nat) :
    State × Err :=
  if cs = 0 then (st, .einval)
  else if flags / 2 ≠ 0 then (st, .einval)
  else
    let ovw := flags % 2 = 1
    let olds := (regLoop forced infos ovw st.kinds cs).1
    let added := regAdded forced infos ovw st.kinds cs
    ({ st with kinds := olds ++ added,
               alloc := max st.alloc (capFor st.kinds.length),
               stale := st.stale.drop added.length }, .ok)

/-- the register writes a new kind into a vacated slot whose stale `infos.array` is non-NULL -/
def staleHit (st : State) (cs : Nat) (forced : Int) (infos : List Info) (ovw : Bool) : Bool :=
  (st.stale.take (regAdded forced infos ovw st.kinds cs).length).any id

/-- `hwloc_cpukinds_register`; `cs = none` is the NULL pointer -/
def register (strat : Strategy) (st : State) (cs : Option Nat) (forced : Int) (infos : List Info)
    (flags : Nat) : State × Err :=
  if flags ≠ 0 then (st, .einval)
  else match cs with
    | none => (st, .einval)
    | some c =>
      if c = 0 then (st, .einval)
      else
        let f : Int := if forced < 0 then -1 else forced
        let st' := (internalRegister st c f infos 1).1
        ({ st' with kinds := rank strat st'.kinds }, .ok)

/-! ### restrict, dup, XML round trip, refresh -/

/-- every slot vacated by one restrict holds a bit-copy of the kind that was last in the array -/
def lastArr (ks : List Kind) : Bool :=
  match ks.getLast? with
  | some k => k.arrNonNull
  | none => false

/-- `hwloc_internal_cpukinds_restrict` once the root cpuset is `root'` -/
def restrictKinds (strat : Strategy) (st : State) (root' : Nat) : State :=
  let ks := st.kinds.map (fun k => { k with cpuset := k.cpuset &&& root' })
  let ks' := ks.filter (fun k => decide (k.cpuset ≠ 0))
  let removed := ks.length - ks'.length
  if removed = 0 then { st with kinds := ks', root := root' }
  else { st with kinds := rank strat ks', root := root',
                 stale := List.replicate removed (lastArr st.kinds) ++ st.stale }

/-- `hwloc_topology_restrict(topology, set, 0)` as far as cpukinds are concerned: the root cpuset
    becomes `root ∩ set`; EINVAL (nothing touched) when that is empty -/
def restrict (strat : Strategy) (st : State) (set : Nat) : State × Err :=
  if st.root &&& set = 0 then (st, .einval)
  else (restrictKinds strat st (st.root &&& set), .ok)

/-- `hwloc_internal_cpukinds_dup` -/
def dup (st : State) : State :=
  { st with kinds := st.kinds.map (fun k => { k with dupd := true }), alloc := st.kinds.length, stale := [] }

/-- XML export + import into a fresh topology: every kind is re-registered in array order, ranking
    runs once at the end of `hwloc_topology_load` -/
def xmlReload (strat : Strategy) (st : State) : State :=
  let st0 : State := { root := st.root }
  let st1 := st.kinds.foldl (fun s k => (internalRegister s k.cpuset k.forced k.infos 1).1) st0
  { st1 with kinds := rank strat st1.kinds }

/-- `hwloc_topology_refresh` -/
def refresh (strat : Strategy) (st : State) : State := { st with kinds := rank strat st.kinds }

/-! ### consulting -/

inductive Res | idx (i : Nat) | err (e : Err)
deriving DecidableEq, Repr

def byCpusetLoop : List Kind → Nat → Nat → Res
  | [], _, _ => .err .enoent
  | k :: ks, s, i =>
    match rel s k.cpuset with
    | .equal | .included => .idx i
    | .intersects | .contains => .err .exdev
    | .different => byCpusetLoop ks s (i + 1)

/-- `hwloc_cpukinds_get_by_cpuset`; `none` is the NULL pointer -/
def getByCpuset (st : State) (s : Option Nat) (flags : Nat) : Res :=
  if flags ≠ 0 then .err .einval
  else match s with
    | none => .err .einval
    | some s => if s = 0 then .err .einval else byCpusetLoop st.kinds s 0

/-- `hwloc_cpukinds_get_nr` -/
def getNr (st : State) (flags : Nat) : Res :=
  if flags ≠ 0 then .err .einval else .idx st.kinds.length

/-- `hwloc_cpukinds_get_info` -/
def getInfo (st : State) (id : Nat) (flags : Nat) : Except Err Kind :=
  if flags ≠ 0 then .error .einval
  else match st.kinds[id]? with
    | some k => .ok k
    | none => .error .enoent

/-! ### histories of public calls -/

inductive Op
  | register (cs : Option Nat) (forced : Int) (infos : List Info) (flags : Nat)
  | restrict (set : Nat)
  | dup
  | xml
  | refresh
deriving Repr

def step (strat : Strategy) (st : State) : Op → State
  | .register cs f i fl => (register strat st cs f i fl).1
  | .restrict set => (restrict strat st set).1
  | .dup => dup st
  | .xml => xmlReload strat st
  | .refresh => refresh strat st

/-- state after a history, starting from a freshly loaded topology whose root cpuset is `root` -/
def run (strat : Strategy) (root : Nat) (h : List Op) : State :=
  h.foldl (step strat) { root := root }

end CpuKinds
end Hw
