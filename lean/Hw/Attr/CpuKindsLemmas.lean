/-
  Hw.Attr.CpuKindsLemmas — helper lemmas for C15 (partition / infos / ranking invariants of the
  cpukinds model).  Core Lean only.
-/
import Hw.Attr.CpuKinds
namespace Hw
namespace CpuKinds

/-! ### finite sets as `Nat` masks -/

theorem testBit_andnot (a b i : Nat) : (andnot a b).testBit i = (a.testBit i && !b.testBit i) := by
  simp only [andnot, Nat.testBit_xor, Nat.testBit_and]
  cases a.testBit i <;> cases b.testBit i <;> rfl

theorem eq_zero_iff_bits (a : Nat) : a = 0 ↔ ∀ i, a.testBit i = false := by
  constructor
  · intro h i; subst h; exact Nat.zero_testBit i
  · intro h
    apply Nat.eq_of_testBit_eq
    intro i; rw [h i, Nat.zero_testBit]

theorem ne_zero_iff_bits (a : Nat) : a ≠ 0 ↔ ∃ i, a.testBit i = true := by
  constructor
  · exact Nat.exists_testBit_of_ne_zero
  · intro ⟨i, hi⟩ h; subst h; rw [Nat.zero_testBit] at hi; cases hi

theorem and_eq_zero_iff_bits (a b : Nat) :
    a &&& b = 0 ↔ ∀ i, a.testBit i = true → b.testBit i = true → False := by
  rw [eq_zero_iff_bits]
  constructor
  · intro h i h1 h2
    have := h i
    rw [Nat.testBit_and, h1, h2] at this; cases this
  · intro h i
    rw [Nat.testBit_and]
    cases h1 : a.testBit i <;> cases h2 : b.testBit i <;> simp
    exact h i h1 h2

theorem and_eq_left_iff_bits (a b : Nat) :
    a &&& b = a ↔ ∀ i, a.testBit i = true → b.testBit i = true := by
  constructor
  · intro h i h1
    have : (a &&& b).testBit i = a.testBit i := by rw [h]
    rw [Nat.testBit_and, h1] at this
    simpa using this
  · intro h
    apply Nat.eq_of_testBit_eq
    intro i
    rw [Nat.testBit_and]
    cases h1 : a.testBit i
    · simp
    · simp [h i h1]

theorem and_eq_right_iff_bits (a b : Nat) :
    a &&& b = b ↔ ∀ i, b.testBit i = true → a.testBit i = true := by
  rw [Nat.and_comm]; exact and_eq_left_iff_bits b a

/-- `Sub a b`: every PU of `a` is in `b` -/
def Sub (a b : Nat) : Prop := ∀ i, a.testBit i = true → b.testBit i = true
/-- `Meets a b`: the sets share a PU -/
def Meets (a b : Nat) : Prop := ∃ i, a.testBit i = true ∧ b.testBit i = true

theorem not_meets_iff (a b : Nat) : ¬ Meets a b ↔ a &&& b = 0 := by
  rw [and_eq_zero_iff_bits]
  constructor
  · intro h i h1 h2; exact h ⟨i, h1, h2⟩
  · intro h ⟨i, h1, h2⟩; exact h i h1 h2

/-! ### `compare_inclusion` at the set level -/

theorem rel_equal {a b : Nat} : rel a b = .equal ↔ a = b := by
  unfold rel; split
  · simp [*]
  · split
    · simp [*]
    · split
      · simp [*]
      · split <;> simp [*]

theorem rel_cases (a b : Nat) :
    (rel a b = .equal ∧ a = b) ∨
    (rel a b = .included ∧ a ≠ b ∧ a &&& b = a) ∨
    (rel a b = .contains ∧ a ≠ b ∧ a &&& b ≠ a ∧ a &&& b = b) ∨
    (rel a b = .different ∧ a ≠ b ∧ a &&& b ≠ a ∧ a &&& b ≠ b ∧ a &&& b = 0) ∨
    (rel a b = .intersects ∧ a ≠ b ∧ a &&& b ≠ a ∧ a &&& b ≠ b ∧ a &&& b ≠ 0) := by
  unfold rel
  by_cases h1 : a = b
  · rw [if_pos h1]; exact Or.inl ⟨rfl, h1⟩
  · rw [if_neg h1]
    by_cases h2 : a &&& b = a
    · rw [if_pos h2]; exact Or.inr (Or.inl ⟨rfl, h1, h2⟩)
    · rw [if_neg h2]
      by_cases h3 : a &&& b = b
      · rw [if_pos h3]; exact Or.inr (Or.inr (Or.inl ⟨rfl, h1, h2, h3⟩))
      · rw [if_neg h3]
        by_cases h4 : a &&& b = 0
        · rw [if_pos h4]; exact Or.inr (Or.inr (Or.inr (Or.inl ⟨rfl, h1, h2, h3, h4⟩)))
        · rw [if_neg h4]; exact Or.inr (Or.inr (Or.inr (Or.inr ⟨rfl, h1, h2, h3, h4⟩)))

/-- what the split branch (INTERSECTS / INCLUDED) needs: the intersection and what is left of the
    old kind are both non-empty -/
theorem split_nonempty {a b : Nat} (ha : a ≠ 0)
    (h : rel a b = .intersects ∨ rel a b = .included) :
    a &&& b ≠ 0 ∧ andnot b (a &&& b) ≠ 0 := by
  rcases rel_cases a b with ⟨e, _⟩ | ⟨_, hne, hl⟩ | ⟨e, _⟩ | ⟨e, _⟩ | ⟨_, hne, hl, hr, hz⟩
  · rcases h with h | h <;> rw [e] at h <;> cases h
  · refine ⟨by rw [hl]; exact ha, ?_⟩
    -- a ⊂ b strictly: some bit of b outside a
    rw [ne_zero_iff_bits]
    have hsub := (and_eq_left_iff_bits a b).mp hl
    have : ¬ (∀ i, b.testBit i = true → a.testBit i = true) := by
      intro hh; apply hne
      apply Nat.eq_of_testBit_eq; intro i
      cases h1 : a.testBit i <;> cases h2 : b.testBit i <;> simp_all
    have ⟨i, hi⟩ : ∃ i, b.testBit i = true ∧ a.testBit i = false := by
      apply Classical.byContradiction; intro hn
      apply this; intro i hb
      cases h1 : a.testBit i
      · exact absurd ⟨i, hb, h1⟩ hn
      · rfl
    exact ⟨i, by rw [testBit_andnot, Nat.testBit_and, hi.1, hi.2]; rfl⟩
  · rcases h with h | h <;> rw [e] at h <;> cases h
  · rcases h with h | h <;> rw [e] at h <;> cases h
  · refine ⟨hz, ?_⟩
    rw [ne_zero_iff_bits]
    have : ¬ (∀ i, b.testBit i = true → a.testBit i = true) := fun hh => hr ((and_eq_right_iff_bits a b).mpr hh)
    have ⟨i, hi⟩ : ∃ i, b.testBit i = true ∧ a.testBit i = false := by
      apply Classical.byContradiction; intro hn
      apply this; intro i hb
      cases h1 : a.testBit i
      · exact absurd ⟨i, hb, h1⟩ hn
      · rfl
    exact ⟨i, by rw [testBit_andnot, Nat.testBit_and, hi.1, hi.2]; rfl⟩

theorem merge_sub {a b : Nat} (h : rel a b = .contains ∨ rel a b = .equal) : Sub b a := by
  rcases rel_cases a b with ⟨_, e⟩ | ⟨e, _⟩ | ⟨_, _, _, hr⟩ | ⟨e, _⟩ | ⟨e, _⟩
  · subst e; exact fun _ h => h
  · rcases h with h | h <;> rw [e] at h <;> cases h
  · exact (and_eq_right_iff_bits a b).mp hr
  · rcases h with h | h <;> rw [e] at h <;> cases h
  · rcases h with h | h <;> rw [e] at h <;> cases h

theorem different_disj {a b : Nat} (h : rel a b = .different) : a &&& b = 0 := by
  rcases rel_cases a b with ⟨e, _⟩ | ⟨e, _⟩ | ⟨e, _⟩ | ⟨_, _, _, _, hz⟩ | ⟨e, _⟩
  all_goals first | exact hz | (rw [e] at h; cases h)

theorem rel_different_of_disj {a b : Nat} (ha : a ≠ 0) (hb : b ≠ 0) (h : a &&& b = 0) :
    rel a b = .different := by
  rcases rel_cases a b with ⟨_, e⟩ | ⟨_, _, hl⟩ | ⟨_, _, _, hr⟩ | ⟨e, _⟩ | ⟨_, _, _, _, hz⟩
  · subst e; rw [Nat.and_self] at h; exact absurd h ha
  · rw [h] at hl; exact absurd hl.symm ha
  · rw [h] at hr; exact absurd hr.symm hb
  · exact e
  · exact absurd h hz

/-! ### kinds lists -/

/-- some kind of the list contains PU `p` -/
def Covers (ks : List Kind) (p : Nat) : Prop := ∃ k ∈ ks, k.cpuset.testBit p = true

def NonEmpty (ks : List Kind) : Prop := ∀ k ∈ ks, k.cpuset ≠ 0
def Disjoint (ks : List Kind) : Prop := ks.Pairwise (fun a b => a.cpuset &&& b.cpuset = 0)
def InfosNodup (ks : List Kind) : Prop := ∀ k ∈ ks, k.infos.Nodup

theorem covers_cons {k : Kind} {ks : List Kind} {p : Nat} :
    Covers (k :: ks) p ↔ k.cpuset.testBit p = true ∨ Covers ks p := by
  simp [Covers]

theorem covers_append {a b : List Kind} {p : Nat} : Covers (a ++ b) p ↔ Covers a p ∨ Covers b p := by
  simp only [Covers, List.mem_append]
  constructor
  · rintro ⟨k, hk | hk, h⟩
    · exact Or.inl ⟨k, hk, h⟩
    · exact Or.inr ⟨k, hk, h⟩
  · rintro (⟨k, hk, h⟩ | ⟨k, hk, h⟩)
    · exact ⟨k, Or.inl hk, h⟩
    · exact ⟨k, Or.inr hk, h⟩

theorem disj_symm {a b : Kind} (h : a.cpuset &&& b.cpuset = 0) : b.cpuset &&& a.cpuset = 0 := by
  rw [Nat.and_comm]; exact h

/-! ### infos -/

theorem addInfos_step_mem (acc : List Info) (p x : Info) :
    x ∈ (if acc.contains p then acc else acc ++ [p]) ↔ x ∈ acc ∨ x = p := by
  by_cases h : acc.contains p = true
  · rw [if_pos h]
    constructor
    · exact Or.inl
    · rintro (h1 | h1)
      · exact h1
      · subst h1; exact List.contains_iff_mem.mp h
  · rw [if_neg h]; simp

theorem mem_addInfos (cur new : List Info) (x : Info) : x ∈ addInfos cur new ↔ x ∈ cur ∨ x ∈ new := by
  unfold addInfos
  induction new generalizing cur with
  | nil => simp
  | cons p ps ih =>
    rw [List.foldl_cons, ih, addInfos_step_mem]
    simp only [List.mem_cons]
    constructor
    · rintro ((h | h) | h)
      · exact Or.inl h
      · exact Or.inr (Or.inl h)
      · exact Or.inr (Or.inr h)
    · rintro (h | h | h)
      · exact Or.inl (Or.inl h)
      · exact Or.inl (Or.inr h)
      · exact Or.inr h

theorem nodup_addInfos (cur new : List Info) (h : cur.Nodup) : (addInfos cur new).Nodup := by
  unfold addInfos
  induction new generalizing cur with
  | nil => simpa using h
  | cons p ps ih =>
    rw [List.foldl_cons]
    apply ih
    by_cases hc : cur.contains p = true
    · rw [if_pos hc]; exact h
    · rw [if_neg hc]
      rw [List.nodup_append]
      refine ⟨h, by simp, ?_⟩
      intro a ha b hb
      simp only [List.mem_singleton] at hb
      subst hb
      intro e; subst e
      exact hc (List.contains_iff_mem.mpr ha)

/-- re-adding a duplicate-free list to an empty slot reproduces it (XML reload, split copy) -/
theorem addInfos_nil_of_nodup (l : List Info) (h : l.Nodup) : addInfos [] l = l := by
  suffices H : ∀ (pre l : List Info), (pre ++ l).Nodup → addInfos pre l = pre ++ l by
    simpa using H [] l (by simpa using h)
  intro pre l
  induction l generalizing pre with
  | nil => intro _; simp [addInfos]
  | cons p ps ih =>
    intro hn
    unfold addInfos
    rw [List.foldl_cons]
    have hnot : pre.contains p = false := by
      cases hc : pre.contains p
      · rfl
      · have hm := List.contains_iff_mem.mp hc
        rw [List.nodup_append] at hn
        exact absurd rfl (hn.2.2 p hm p (List.mem_cons_self))
    rw [hnot]
    have := ih (pre ++ [p]) (by simpa using hn)
    unfold addInfos at this
    simpa using this

/-! ### the register loop -/

section RegLoop
variable (f : Int) (infos : List Info) (o : Bool)

theorem regLoop_nil (cs : Nat) : regLoop f infos o [] cs = ([], [], cs) := rfl

theorem regLoop_break (k : Kind) (ks : List Kind) : regLoop f infos o (k :: ks) 0 = (k :: ks, [], 0) := by
  simp [regLoop]

theorem regLoop_split (k : Kind) (ks : List Kind) (cs : Nat) (hcs : cs ≠ 0)
    (h : rel cs k.cpuset = .intersects ∨ rel cs k.cpuset = .included) :
    regLoop f infos o (k :: ks) cs =
      ({ k with cpuset := andnot k.cpuset (cs &&& k.cpuset) } ::
          (regLoop f infos o ks (andnot cs (cs &&& k.cpuset))).1,
       { cpuset := cs &&& k.cpuset, eff := -1, forced := f,
         infos := addInfos (addInfos [] k.infos) infos } ::
          (regLoop f infos o ks (andnot cs (cs &&& k.cpuset))).2.1,
       (regLoop f infos o ks (andnot cs (cs &&& k.cpuset))).2.2) := by
  rcases h with h | h <;> simp [regLoop, hcs, h]

theorem regLoop_merge (k : Kind) (ks : List Kind) (cs : Nat) (hcs : cs ≠ 0)
    (h : rel cs k.cpuset = .contains ∨ rel cs k.cpuset = .equal) :
    regLoop f infos o (k :: ks) cs =
      ({ k with infos := addInfos k.infos infos,
                forced := if o || k.forced = -1 then f else k.forced } ::
          (regLoop f infos o ks (andnot cs k.cpuset)).1,
       (regLoop f infos o ks (andnot cs k.cpuset)).2.1,
       (regLoop f infos o ks (andnot cs k.cpuset)).2.2) := by
  rcases h with h | h <;> simp [regLoop, hcs, h]

theorem regLoop_diff (k : Kind) (ks : List Kind) (cs : Nat) (hcs : cs ≠ 0)
    (h : rel cs k.cpuset = .different) :
    regLoop f infos o (k :: ks) cs =
      (k :: (regLoop f infos o ks cs).1, (regLoop f infos o ks cs).2.1, (regLoop f infos o ks cs).2.2) := by
  simp [regLoop, hcs, h]

theorem rel_trichotomy (a b : Nat) :
    (rel a b = .intersects ∨ rel a b = .included) ∨ (rel a b = .contains ∨ rel a b = .equal) ∨
      rel a b = .different := by
  cases rel a b <;> simp

/-- what the loop guarantees; `ow p x`: info pair `x` is owed to PU `p` before the call -/
structure LoopPost (ow : Nat → Info → Prop) (ks : List Kind) (cs : Nat)
    (r : List Kind × List Kind × Nat) : Prop where
  ne : NonEmpty (r.1 ++ r.2.1)
  dj : Disjoint (r.1 ++ r.2.1)
  cov : ∀ p, Covers (r.1 ++ r.2.1) p ↔ Covers ks p
  newsSub : ∀ k ∈ r.2.1, Sub k.cpuset cs
  rem : ∀ p, r.2.2.testBit p = true ↔ (cs.testBit p = true ∧ ¬ Covers ks p)
  len1 : r.1.length = ks.length
  len2 : r.2.1.length ≤ ks.length
  nd : InfosNodup (r.1 ++ r.2.1)
  inf : ∀ k ∈ r.1 ++ r.2.1, ∀ p, k.cpuset.testBit p = true →
          ∀ x, x ∈ k.infos ↔ (ow p x ∨ (cs.testBit p = true ∧ x ∈ infos))
  frc : (-1 ≤ f) → (∀ k ∈ ks, -1 ≤ k.forced) → ∀ k ∈ r.1 ++ r.2.1, -1 ≤ k.forced

theorem disjoint_cons_perm {a b : Kind} {l1 l2 : List Kind} :
    Disjoint ((a :: l1) ++ (b :: l2)) ↔ Disjoint (a :: b :: (l1 ++ l2)) := by
  unfold Disjoint
  apply List.Perm.pairwise_iff (fun h => disj_symm h)
  have : ((a :: l1) ++ (b :: l2)).Perm (b :: ((a :: l1) ++ l2)) := List.perm_middle
  exact this.trans (List.Perm.swap a b (l1 ++ l2))

theorem regLoop_spec (ow : Nat → Info → Prop) :
    ∀ (ks : List Kind) (cs : Nat), NonEmpty ks → Disjoint ks → InfosNodup ks →
      (∀ k ∈ ks, ∀ p, k.cpuset.testBit p = true → ∀ x, x ∈ k.infos ↔ ow p x) →
      LoopPost f infos ow ks cs (regLoop f infos o ks cs) := by
  intro ks
  induction ks with
  | nil =>
    intro cs _ _ _ _
    rw [regLoop_nil]
    refine ⟨by simp [NonEmpty], by simp [Disjoint], by simp, by simp, ?_, rfl, Nat.le_refl _, by simp [InfosNodup],
      by simp, by simp⟩
    intro p; simp [Covers]
  | cons k ks ih =>
    intro cs hne hdj hnd hinf
    have hne' : NonEmpty ks := fun x hx => hne x (List.mem_cons_of_mem _ hx)
    have hdj' : Disjoint ks := (List.pairwise_cons.mp hdj).2
    have hnd' : InfosNodup ks := fun x hx => hnd x (List.mem_cons_of_mem _ hx)
    have hinf' : ∀ x ∈ ks, ∀ p, x.cpuset.testBit p = true → ∀ y, y ∈ x.infos ↔ ow p y :=
      fun x hx => hinf x (List.mem_cons_of_mem _ hx)
    have hkne : k.cpuset ≠ 0 := hne k List.mem_cons_self
    -- a PU of `k` is covered by no later kind
    have hkout : ∀ p, k.cpuset.testBit p = true → ¬ Covers ks p := by
      intro p hp ⟨x, hx, hxp⟩
      exact (and_eq_zero_iff_bits _ _).mp ((List.pairwise_cons.mp hdj).1 x hx) p hp hxp
    by_cases hcs : cs = 0
    · subst hcs
      rw [regLoop_break]
      refine ⟨by simpa using hne, by simpa using hdj, by simp, by simp, ?_, rfl, Nat.zero_le _,
        by simpa using hnd, ?_, ?_⟩
      · intro p; simp [Nat.zero_testBit]
      · intro x hx p hp y
        simp only [List.append_nil] at hx
        simp [Nat.zero_testBit, hinf x hx p hp y]
      · intro _ h x hx; simp only [List.append_nil] at hx; exact h x hx
    · rcases rel_trichotomy cs k.cpuset with hr | hr | hr
      · -- split
        rw [regLoop_split f infos o k ks cs hcs hr]
        have P := ih (andnot cs (cs &&& k.cpuset)) hne' hdj' hnd' hinf'
        generalize regLoop f infos o ks (andnot cs (cs &&& k.cpuset)) = r at P
        have ⟨hi1, hi2⟩ := split_nonempty hcs hr
        have hrest : ∀ x ∈ r.1 ++ r.2.1, ∀ p, x.cpuset.testBit p = true → k.cpuset.testBit p = false := by
          intro x hx p hp
          cases hk : k.cpuset.testBit p
          · rfl
          · exact absurd ((P.cov p).mp ⟨x, hx, hp⟩) (hkout p hk)
        refine ⟨?_, ?_, ?_, ?_, ?_, ?_, ?_, ?_, ?_, ?_⟩
        · intro x hx
          simp only [List.cons_append, List.mem_cons, List.mem_append] at hx
          rcases hx with rfl | hx | rfl | hx
          · exact hi2
          · exact P.ne x (List.mem_append_left _ hx)
          · exact hi1
          · exact P.ne x (List.mem_append_right _ hx)
        · rw [disjoint_cons_perm]
          unfold Disjoint
          rw [List.pairwise_cons, List.pairwise_cons]
          refine ⟨?_, ?_, P.dj⟩
          · intro x hx
            rcases List.mem_cons.mp hx with rfl | hx
            · rw [and_eq_zero_iff_bits]; intro p h1 h2
              simp only [testBit_andnot, Nat.testBit_and] at h1 h2
              cases hc : cs.testBit p <;> cases hk : k.cpuset.testBit p <;> simp_all
            · rw [and_eq_zero_iff_bits]; intro p h1 h2
              have := hrest x hx p h2
              simp only [testBit_andnot, Nat.testBit_and] at h1
              simp_all
          · intro x hx
            rw [and_eq_zero_iff_bits]; intro p h1 h2
            have := hrest x hx p h2
            simp only [Nat.testBit_and] at h1
            simp_all
        · intro p
          have hP := P.cov p
          simp only [List.cons_append, covers_cons, covers_append] at hP ⊢
          simp only [testBit_andnot, Nat.testBit_and]
          constructor
          · rintro (h | h | h | h)
            · left; cases hk : k.cpuset.testBit p <;> simp_all
            · exact Or.inr (hP.mp (Or.inl h))
            · left; cases hk : k.cpuset.testBit p <;> simp_all
            · exact Or.inr (hP.mp (Or.inr h))
          · rintro (h | h)
            · cases hc : cs.testBit p
              · left; simp [h]
              · right; right; left; simp [h]
            · rcases hP.mpr h with h | h
              · exact Or.inr (Or.inl h)
              · exact Or.inr (Or.inr (Or.inr h))
        · intro x hx
          rcases List.mem_cons.mp hx with rfl | hx
          · intro p hp; simp only [Nat.testBit_and] at hp; cases hc : cs.testBit p <;> simp_all
          · intro p hp
            have := P.newsSub x hx p hp
            simp only [testBit_andnot] at this
            cases hc : cs.testBit p <;> simp_all
        · intro p
          rw [P.rem p, covers_cons]
          simp only [testBit_andnot, Nat.testBit_and]
          cases hc : cs.testBit p <;> cases hk : k.cpuset.testBit p <;> simp
        · simp [P.len1]
        · simp only [List.length_cons]; exact Nat.succ_le_succ P.len2
        · intro x hx
          simp only [List.cons_append, List.mem_cons, List.mem_append] at hx
          rcases hx with rfl | hx | rfl | hx
          · exact hnd k List.mem_cons_self
          · exact P.nd x (List.mem_append_left _ hx)
          · exact nodup_addInfos _ _ (nodup_addInfos _ _ List.nodup_nil)
          · exact P.nd x (List.mem_append_right _ hx)
        · intro x hx p hp y
          simp only [List.cons_append, List.mem_cons, List.mem_append] at hx
          have hrec : ∀ x ∈ r.1 ++ r.2.1, x.cpuset.testBit p = true →
              (y ∈ x.infos ↔ (ow p y ∨ (cs.testBit p = true ∧ y ∈ infos))) := by
            intro x hx hp
            rw [P.inf x hx p hp y]
            have := hrest x hx p hp
            simp only [testBit_andnot, Nat.testBit_and, this]
            simp
          rcases hx with rfl | hx | rfl | hx
          · simp only [testBit_andnot, Nat.testBit_and] at hp
            have hk : k.cpuset.testBit p = true := by cases hk : k.cpuset.testBit p <;> simp_all
            have hc : cs.testBit p = false := by cases hc : cs.testBit p <;> simp_all
            simp [hinf k List.mem_cons_self p hk y, hc]
          · exact hrec x (List.mem_append_left _ hx) hp
          · simp only [Nat.testBit_and] at hp
            have hk : k.cpuset.testBit p = true := by cases hk : k.cpuset.testBit p <;> simp_all
            have hc : cs.testBit p = true := by cases hc : cs.testBit p <;> simp_all
            simp [mem_addInfos, hinf k List.mem_cons_self p hk y, hc]
          · exact hrec x (List.mem_append_right _ hx) hp
        · intro hf hall x hx
          simp only [List.cons_append, List.mem_cons, List.mem_append] at hx
          have hall' : ∀ x ∈ ks, -1 ≤ x.forced := fun x hx => hall x (List.mem_cons_of_mem _ hx)
          rcases hx with rfl | hx | rfl | hx
          · exact hall k List.mem_cons_self
          · exact P.frc hf hall' x (List.mem_append_left _ hx)
          · exact hf
          · exact P.frc hf hall' x (List.mem_append_right _ hx)
      · -- merge
        rw [regLoop_merge f infos o k ks cs hcs hr]
        have P := ih (andnot cs k.cpuset) hne' hdj' hnd' hinf'
        generalize regLoop f infos o ks (andnot cs k.cpuset) = r at P
        have hsub := merge_sub hr
        have hrest : ∀ x ∈ r.1 ++ r.2.1, ∀ p, x.cpuset.testBit p = true → k.cpuset.testBit p = false := by
          intro x hx p hp
          cases hk : k.cpuset.testBit p
          · rfl
          · exact absurd ((P.cov p).mp ⟨x, hx, hp⟩) (hkout p hk)
        refine ⟨?_, ?_, ?_, ?_, ?_, ?_, ?_, ?_, ?_, ?_⟩
        · intro x hx
          simp only [List.cons_append, List.mem_cons] at hx
          rcases hx with rfl | hx
          · exact hkne
          · exact P.ne x hx
        · show Disjoint (_ :: (r.1 ++ r.2.1))
          unfold Disjoint
          rw [List.pairwise_cons]
          refine ⟨?_, P.dj⟩
          intro x hx
          rw [and_eq_zero_iff_bits]; intro p h1 h2
          have := hrest x hx p h2
          simp_all
        · intro p
          have hP := P.cov p
          simp only [List.cons_append, covers_cons] at hP ⊢
          rw [hP]
        · intro x hx p hp
          have := P.newsSub x hx p hp
          simp only [testBit_andnot] at this
          cases hc : cs.testBit p <;> simp_all
        · intro p
          rw [P.rem p, covers_cons]
          simp only [testBit_andnot]
          cases hc : cs.testBit p <;> cases hk : k.cpuset.testBit p <;> simp
        · simp [P.len1]
        · exact Nat.le_succ_of_le P.len2
        · intro x hx
          simp only [List.cons_append, List.mem_cons] at hx
          rcases hx with rfl | hx
          · exact nodup_addInfos _ _ (hnd k List.mem_cons_self)
          · exact P.nd x hx
        · intro x hx p hp y
          simp only [List.cons_append, List.mem_cons] at hx
          rcases hx with rfl | hx
          · have hp' : k.cpuset.testBit p = true := hp
            simp [mem_addInfos, hinf k List.mem_cons_self p hp' y, hsub p hp']
          · rw [P.inf x hx p hp y]
            have := hrest x hx p hp
            simp only [testBit_andnot, this]
            simp
        · intro hf hall x hx
          simp only [List.cons_append, List.mem_cons] at hx
          have hall' : ∀ x ∈ ks, -1 ≤ x.forced := fun x hx => hall x (List.mem_cons_of_mem _ hx)
          rcases hx with rfl | hx
          · show -1 ≤ (if o || k.forced = -1 then f else k.forced)
            split
            · exact hf
            · exact hall k List.mem_cons_self
          · exact P.frc hf hall' x hx
      · -- different
        rw [regLoop_diff f infos o k ks cs hcs hr]
        have P := ih cs hne' hdj' hnd' hinf'
        generalize regLoop f infos o ks cs = r at P
        have hd := (and_eq_zero_iff_bits _ _).mp (different_disj hr)
        have hrest : ∀ x ∈ r.1 ++ r.2.1, ∀ p, x.cpuset.testBit p = true → k.cpuset.testBit p = false := by
          intro x hx p hp
          cases hk : k.cpuset.testBit p
          · rfl
          · exact absurd ((P.cov p).mp ⟨x, hx, hp⟩) (hkout p hk)
        refine ⟨?_, ?_, ?_, P.newsSub, ?_, ?_, ?_, ?_, ?_, ?_⟩
        · intro x hx
          simp only [List.cons_append, List.mem_cons] at hx
          rcases hx with rfl | hx
          · exact hkne
          · exact P.ne x hx
        · show Disjoint (_ :: (r.1 ++ r.2.1))
          unfold Disjoint
          rw [List.pairwise_cons]
          refine ⟨?_, P.dj⟩
          intro x hx
          rw [and_eq_zero_iff_bits]; intro p h1 h2
          have := hrest x hx p h2
          simp_all
        · intro p
          have hP := P.cov p
          simp only [List.cons_append, covers_cons] at hP ⊢
          rw [hP]
        · intro p
          rw [P.rem p, covers_cons]
          have := hd p
          cases hc : cs.testBit p <;> cases hk : k.cpuset.testBit p <;> simp_all
        · simp [P.len1]
        · exact Nat.le_succ_of_le P.len2
        · intro x hx
          simp only [List.cons_append, List.mem_cons] at hx
          rcases hx with rfl | hx
          · exact hnd _ List.mem_cons_self
          · exact P.nd x hx
        · intro x hx p hp y
          simp only [List.cons_append, List.mem_cons] at hx
          rcases hx with rfl | hx
          · have hc : cs.testBit p = false := by
              cases hc : cs.testBit p
              · rfl
              · exact absurd hp (fun h => hd p hc h)
            simp [hinf _ List.mem_cons_self p hp y, hc]
          · exact P.inf x hx p hp y
        · intro hf hall x hx
          simp only [List.cons_append, List.mem_cons] at hx
          have hall' : ∀ x ∈ ks, -1 ≤ x.forced := fun x hx => hall x (List.mem_cons_of_mem _ hx)
          rcases hx with rfl | hx
          · exact hall _ List.mem_cons_self
          · exact P.frc hf hall' x hx

end RegLoop

theorem regLoop_len (f : Int) (infos : List Info) (o : Bool) :
    ∀ (ks : List Kind) (cs : Nat),
      (regLoop f infos o ks cs).1.length = ks.length ∧ (regLoop f infos o ks cs).2.1.length ≤ ks.length := by
  intro ks
  induction ks with
  | nil => intro cs; simp [regLoop]
  | cons k ks ih =>
    intro cs
    by_cases hcs : cs = 0
    · subst hcs; rw [regLoop_break]; simp
    · rcases rel_trichotomy cs k.cpuset with hr | hr | hr
      · rw [regLoop_split f infos o k ks cs hcs hr]
        have := ih (andnot cs (cs &&& k.cpuset))
        simp only [List.length_cons]; omega
      · rw [regLoop_merge f infos o k ks cs hcs hr]
        have := ih (andnot cs k.cpuset)
        simp only [List.length_cons]; omega
      · rw [regLoop_diff f infos o k ks cs hcs hr]
        have := ih cs
        simp only [List.length_cons]; omega

theorem regAdded_len (f : Int) (infos : List Info) (o : Bool) (ks : List Kind) (cs : Nat) :
    (regAdded f infos o ks cs).length ≤ ks.length + 1 := by
  unfold regAdded
  have := (regLoop_len f infos o ks cs).2
  simp only [List.length_append]
  split <;> simp <;> omega

/-! ### capacity -/

theorem lt_two_pow_bitLen (x : Nat) : x < 2 ^ bitLen x := by
  unfold bitLen
  split
  · simp [*]
  · exact Nat.lt_log2_self

theorem capFor_ge (nr : Nat) : 2 * nr + 1 ≤ capFor nr := by
  unfold capFor
  have h1 : 2 * nr + 1 - 1 = 2 * nr := by omega
  rw [h1]
  have h2 := lt_two_pow_bitLen (2 * nr)
  have h3 : 2 ^ (bitLen (2 * nr) + 1) = 2 * 2 ^ bitLen (2 * nr) := by rw [Nat.pow_succ]; omega
  simp only []
  split <;> omega

/-! ### everything but `eff` / `dupd`: transfer along permutations of the "core" of the kinds -/

abbrev Core := Nat × Int × List Info
def Kind.core (k : Kind) : Core := (k.cpuset, k.forced, k.infos)

/-- same kinds up to order, `eff` and `dupd` -/
def SameCore (l l' : List Kind) : Prop := (l'.map Kind.core).Perm (l.map Kind.core)

theorem SameCore.refl (l : List Kind) : SameCore l l := List.Perm.refl _
theorem SameCore.trans {a b c : List Kind} (h1 : SameCore a b) (h2 : SameCore b c) : SameCore a c :=
  List.Perm.trans h2 h1
theorem SameCore.length {l l' : List Kind} (h : SameCore l l') : l'.length = l.length := by
  have := h.length_eq; simpa using this

theorem SameCore.of_map {l : List Kind} (g : Kind → Kind) (hg : ∀ k, (g k).core = k.core) :
    SameCore l (l.map g) := by
  unfold SameCore
  rw [List.map_map]
  have : Kind.core ∘ g = Kind.core := funext hg
  rw [this]

theorem SameCore.of_perm {l l' : List Kind} (h : l'.Perm l) : SameCore l l' := h.map _

theorem forall_core {l l' : List Kind} (h : SameCore l l') {P : Core → Prop}
    (hl : ∀ k ∈ l, P k.core) : ∀ k ∈ l', P k.core := by
  intro k hk
  have : k.core ∈ l.map Kind.core := h.mem_iff.mp (List.mem_map_of_mem hk)
  obtain ⟨k0, hk0, e⟩ := List.mem_map.mp this
  rw [← e]; exact hl k0 hk0

theorem exists_core {l l' : List Kind} (h : SameCore l l') {P : Core → Prop}
    (hl : ∃ k ∈ l, P k.core) : ∃ k ∈ l', P k.core := by
  obtain ⟨k, hk, hp⟩ := hl
  have : k.core ∈ l'.map Kind.core := h.mem_iff.mpr (List.mem_map_of_mem hk)
  obtain ⟨k0, hk0, e⟩ := List.mem_map.mp this
  exact ⟨k0, hk0, by rw [e]; exact hp⟩

theorem SameCore.symm {l l' : List Kind} (h : SameCore l l') : SameCore l' l := List.Perm.symm h

theorem pairwise_core {l l' : List Kind} (h : SameCore l l') {R : Core → Core → Prop}
    (hs : ∀ {a b}, R a b → R b a) (hl : l.Pairwise (fun a b => R a.core b.core)) :
    l'.Pairwise (fun a b => R a.core b.core) := by
  have h1 : (l.map Kind.core).Pairwise R := List.pairwise_map.mpr hl
  have h2 : (l'.map Kind.core).Pairwise R := (List.Perm.symm h).pairwise h1 hs
  exact List.pairwise_map.mp h2

/-! ### sorting and renumbering -/

theorem insertBy_perm (key : Kind → Nat) (k : Kind) (l : List Kind) : (insertBy key k l).Perm (k :: l) := by
  induction l with
  | nil => exact List.Perm.refl _
  | cons x xs ih =>
    unfold insertBy
    split
    · exact List.Perm.refl _
    · exact (List.Perm.cons x ih).trans (List.Perm.swap k x xs)

theorem sortBy_perm (key : Kind → Nat) (l : List Kind) : (sortBy key l).Perm l := by
  induction l with
  | nil => exact List.Perm.refl _
  | cons x xs ih =>
    unfold sortBy
    exact (insertBy_perm key x _).trans (List.Perm.cons x ih)

theorem renumber_core (i : Nat) (l : List Kind) : (renumber i l).map Kind.core = l.map Kind.core := by
  induction l generalizing i with
  | nil => rfl
  | cons x xs ih => simp only [renumber, List.map_cons, ih (i + 1)]; rfl

theorem length_renumber (i : Nat) (l : List Kind) : (renumber i l).length = l.length := by
  induction l generalizing i with
  | nil => rfl
  | cons x xs ih => simp [renumber, ih (i + 1)]

theorem renumber_eff (i : Nat) (l : List Kind) (j : Nat) (h : j < (renumber i l).length) :
    (renumber i l)[j].eff = ((i + j : Nat) : Int) := by
  induction l generalizing i j with
  | nil => simp [renumber] at h
  | cons x xs ih =>
    cases j with
    | zero => simp [renumber]
    | succ j =>
      simp only [renumber, List.getElem_cons_succ]
      rw [ih (i + 1) j]
      congr 1; omega

theorem rank_sameCore (strat : Strategy) (ks : List Kind) : SameCore ks (rank strat ks) := by
  unfold rank
  split
  · exact SameCore.refl _
  · exact SameCore.of_map (l := [_]) (fun k => { k with eff := 0 }) (fun _ => rfl)
  · split
    · unfold finalize SameCore
      rw [renumber_core]
      exact (sortBy_perm _ ks).map _
    · exact SameCore.of_map _ (fun _ => rfl)

/-- all efficiencies unknown, or efficiency = position in the array -/
def EffShape (ks : List Kind) : Prop :=
  (∀ k ∈ ks, k.eff = -1) ∨ (∀ (i : Nat) (h : i < ks.length), ks[i].eff = (i : Int))

theorem rank_effShape (strat : Strategy) (ks : List Kind) : EffShape (rank strat ks) := by
  unfold rank
  split
  · left; simp
  · right; intro i h
    have : i = 0 := by simpa using h
    subst this; rfl
  · split
    · right; intro i h
      unfold finalize at h ⊢
      rw [renumber_eff]; simp
    · left; intro k hk
      obtain ⟨k0, _, e⟩ := List.mem_map.mp hk
      rw [← e]

/-! ### the invariant over histories, against a reference ("ghost") coverage and info assignment -/

/-- reference semantics of a history: root cpuset, covered PUs, info pairs owed to each PU -/
structure Ghost where
  root : Nat
  cov : Nat := 0
  ow : Nat → Info → Prop := fun _ _ => False

def ghostStep (g : Ghost) : Op → Ghost
  | .register (some cs) _ i 0 =>
    if cs = 0 then g
    else { g with cov := g.cov ||| cs, ow := fun p x => g.ow p x ∨ (cs.testBit p = true ∧ x ∈ i) }
  | .register _ _ _ _ => g
  | .restrict set =>
    if g.root &&& set = 0 then g
    else { root := g.root &&& set, cov := g.cov &&& (g.root &&& set),
           ow := fun p x => g.ow p x ∧ (g.root &&& set).testBit p = true }
  | _ => g

def runGhost (root : Nat) (h : List Op) : Ghost := h.foldl ghostStep { root := root }

/-- the part of the invariant that only depends on the cores of the kinds -/
structure KInv (ks : List Kind) (cov : Nat) (ow : Nat → Info → Prop) : Prop where
  ne : NonEmpty ks
  dj : Disjoint ks
  nd : InfosNodup ks
  cov : ∀ p, Covers ks p ↔ cov.testBit p = true
  inf : ∀ k ∈ ks, ∀ p, k.cpuset.testBit p = true → ∀ x, x ∈ k.infos ↔ ow p x
  frc : ∀ k ∈ ks, -1 ≤ k.forced

theorem KInv.transfer {l l' : List Kind} (h : SameCore l l') {cov : Nat} {ow : Nat → Info → Prop}
    (H : KInv l cov ow) : KInv l' cov ow where
  ne := forall_core h (P := fun c => c.1 ≠ 0) H.ne
  dj := pairwise_core h (R := fun a b => a.1 &&& b.1 = 0)
          (fun {a b} hab => by rw [Nat.and_comm]; exact hab) H.dj
  nd := forall_core h (P := fun c => c.2.2.Nodup) H.nd
  cov := fun p => by
    rw [← H.cov p]
    exact ⟨fun hh => exists_core h.symm (P := fun c => c.1.testBit p = true) hh,
           fun hh => exists_core h (P := fun c => c.1.testBit p = true) hh⟩
  inf := forall_core h (P := fun c => ∀ p, c.1.testBit p = true → ∀ x, x ∈ c.2.2 ↔ ow p x) H.inf
  frc := forall_core h (P := fun c => -1 ≤ c.2.1) H.frc

structure Inv (st : State) (g : Ghost) : Prop where
  k : KInv st.kinds g.cov g.ow
  owz : ∀ p x, g.ow p x → g.cov.testBit p = true
  root : g.root = st.root
  cap : st.kinds.length + st.stale.length ≤ st.alloc
  eff : EffShape st.kinds

theorem kinv_nil (cov : Nat) (ow : Nat → Info → Prop) (h : cov = 0) : KInv [] cov ow := by
  subst h
  exact ⟨by simp [NonEmpty], by simp [Disjoint], by simp [InfosNodup], by simp [Covers, Nat.zero_testBit],
    by simp, by simp⟩

/-- `hwloc_internal_cpukinds_register` on valid arguments keeps the core invariant, with the new
    cpuset added to the coverage and the new infos owed to its PUs -/
theorem internalRegister_kinv {st : State} {cov : Nat} {ow : Nat → Info → Prop}
    (H : KInv st.kinds cov ow) (hz : ∀ p x, ow p x → cov.testBit p = true)
    (cs : Nat) (f : Int) (infos : List Info) (fl : Nat) (hcs : cs ≠ 0) (hfl : fl / 2 = 0) (hf : -1 ≤ f) :
    KInv (internalRegister st cs f infos fl).1.kinds (cov ||| cs)
      (fun p x => ow p x ∨ (cs.testBit p = true ∧ x ∈ infos)) := by
  have P := regLoop_spec f infos (decide (fl % 2 = 1)) ow st.kinds cs H.ne H.dj H.nd H.inf
  have hk : (internalRegister st cs f infos fl).1.kinds =
      ((regLoop f infos (decide (fl % 2 = 1)) st.kinds cs).1 ++ (regLoop f infos (decide (fl % 2 = 1)) st.kinds cs).2.1) ++
        (if (regLoop f infos (decide (fl % 2 = 1)) st.kinds cs).2.2 = 0 then [] else
          [{ cpuset := (regLoop f infos (decide (fl % 2 = 1)) st.kinds cs).2.2, eff := -1, forced := f,
             infos := addInfos [] infos }]) := by
    simp [internalRegister, hcs, hfl, regAdded, List.append_assoc]
  rw [hk]
  generalize regLoop f infos (decide (fl % 2 = 1)) st.kinds cs = r at P
  have hremout : ∀ p, r.2.2.testBit p = true → ¬ Covers (r.1 ++ r.2.1) p := by
    intro p hp hc
    exact ((P.rem p).mp hp).2 ((P.cov p).mp hc)
  by_cases hrem : r.2.2 = 0
  · rw [if_pos hrem, List.append_nil]
    refine ⟨P.ne, P.dj, P.nd, ?_, P.inf, P.frc hf H.frc⟩
    intro p
    rw [P.cov p, Nat.testBit_or]
    have h0 : r.2.2.testBit p = false := by rw [hrem]; exact Nat.zero_testBit p
    have h1 := P.rem p
    rw [h0] at h1
    have h2 := H.cov p
    rw [h2] at h1
    rw [h2]
    cases hc : cs.testBit p <;> cases hv : cov.testBit p <;> simp [hc, hv] at h1 ⊢
  · rw [if_neg hrem]
    refine ⟨?_, ?_, ?_, ?_, ?_, ?_⟩
    · intro x hx
      rcases List.mem_append.mp hx with hx | hx
      · exact P.ne x hx
      · rw [List.mem_singleton.mp hx]; exact hrem
    · unfold Disjoint
      rw [List.pairwise_append]
      refine ⟨P.dj, by simp, ?_⟩
      intro a ha b hb
      rw [List.mem_singleton.mp hb, and_eq_zero_iff_bits]
      intro p h1 h2
      exact hremout p h2 ⟨a, ha, h1⟩
    · intro x hx
      rcases List.mem_append.mp hx with hx | hx
      · exact P.nd x hx
      · rw [List.mem_singleton.mp hx]; exact nodup_addInfos _ _ List.nodup_nil
    · intro p
      rw [covers_append, P.cov p, Nat.testBit_or]
      have h1 := P.rem p
      have h2 := H.cov p
      have h3 : Covers [({ cpuset := r.2.2, eff := -1, forced := f, infos := addInfos [] infos } : Kind)] p ↔
          r.2.2.testBit p = true := by simp [Covers]
      rw [h3, h1, h2]
      cases hc : cs.testBit p <;> cases hv : cov.testBit p <;> simp
    · intro x hx p hp y
      rcases List.mem_append.mp hx with hx | hx
      · exact P.inf x hx p hp y
      · rw [List.mem_singleton.mp hx] at hp ⊢
        have ⟨hc, hnc⟩ := (P.rem p).mp hp
        have hno : ¬ ow p y := fun h => hnc ((H.cov p).mpr (hz p y h))
        simp [mem_addInfos, hc, hno]
    · intro x hx
      rcases List.mem_append.mp hx with hx | hx
      · exact P.frc hf H.frc x hx
      · rw [List.mem_singleton.mp hx]; exact hf

theorem internalRegister_cap (st : State) (cs : Nat) (f : Int) (infos : List Info) (fl : Nat)
    (h : st.kinds.length + st.stale.length ≤ st.alloc) :
    let st' := (internalRegister st cs f infos fl).1
    st'.kinds.length + st'.stale.length ≤ st'.alloc := by
  unfold internalRegister
  split
  · exact h
  · split
    · exact h
    · have h1 := (regLoop_len f infos (decide (fl % 2 = 1)) st.kinds cs).1
      have h2 := regAdded_len f infos (decide (fl % 2 = 1)) st.kinds cs
      have h3 := capFor_ge st.kinds.length
      simp only [List.length_append, List.length_drop]
      omega

/-- the array bound of one register: `newnr ≤ 2·oldnr+1 ≤ allocated` -/
theorem internalRegister_bound (st : State) (cs : Nat) (f : Int) (infos : List Info) (fl : Nat)
    (hcs : cs ≠ 0) (hfl : fl / 2 = 0) :
    let st' := (internalRegister st cs f infos fl).1
    st'.kinds.length ≤ 2 * st.kinds.length + 1 ∧ 2 * st.kinds.length + 1 ≤ st'.alloc := by
  have h1 := (regLoop_len f infos (decide (fl % 2 = 1)) st.kinds cs).1
  have h2 := regAdded_len f infos (decide (fl % 2 = 1)) st.kinds cs
  have h3 := capFor_ge st.kinds.length
  simp only [internalRegister, hcs, hfl, if_false, ne_eq, not_true_eq_false, List.length_append]
  omega

/-! ### steps of a history -/

theorem internalRegister_root (st : State) (cs : Nat) (f : Int) (infos : List Info) (fl : Nat) :
    (internalRegister st cs f infos fl).1.root = st.root := by
  unfold internalRegister
  split
  · rfl
  · split <;> rfl

theorem effShape_map {ks : List Kind} (g : Kind → Kind) (hg : ∀ k, (g k).eff = k.eff) (h : EffShape ks) :
    EffShape (ks.map g) := by
  rcases h with h | h
  · left; intro k hk
    obtain ⟨k0, hk0, e⟩ := List.mem_map.mp hk
    rw [← e, hg]; exact h k0 hk0
  · right; intro i hi
    rw [List.getElem_map, hg]
    exact h i (by simpa using hi)

theorem register_inv (strat : Strategy) {st : State} {g : Ghost} (H : Inv st g)
    (cs : Option Nat) (f : Int) (infos : List Info) (fl : Nat) :
    Inv (register strat st cs f infos fl).1 (ghostStep g (.register cs f infos fl)) := by
  by_cases hfl : fl = 0
  · subst hfl
    cases cs with
    | none => simpa [register, ghostStep] using H
    | some c =>
      by_cases hc : c = 0
      · subst hc; simpa [register, ghostStep] using H
      · have hg : ghostStep g (.register (some c) f infos 0) =
            { g with cov := g.cov ||| c, ow := fun p x => g.ow p x ∨ (c.testBit p = true ∧ x ∈ infos) } := by
          simp [ghostStep, hc]
        have hs : (register strat st (some c) f infos 0).1 =
            { (internalRegister st c (if f < 0 then -1 else f) infos 1).1 with
              kinds := rank strat (internalRegister st c (if f < 0 then -1 else f) infos 1).1.kinds } := by
          simp [register, hc]
        rw [hg, hs]
        have hf : (-1 : Int) ≤ (if f < 0 then -1 else f) := by split <;> omega
        have K := internalRegister_kinv H.k H.owz c (if f < 0 then -1 else f) infos 1 hc (by decide) hf
        refine ⟨K.transfer (rank_sameCore strat _), ?_, ?_, ?_, rank_effShape strat _⟩
        · intro p x hx
          show (g.cov ||| c).testBit p = true
          rw [Nat.testBit_or]
          rcases hx with hx | hx
          · rw [H.owz p x hx]; rfl
          · rw [hx.1]; simp
        · show g.root = (internalRegister st c (if f < 0 then -1 else f) infos 1).1.root
          rw [internalRegister_root]; exact H.root
        · have := internalRegister_cap st c (if f < 0 then -1 else f) infos 1 H.cap
          show (rank strat _).length + _ ≤ _
          rw [(rank_sameCore strat _).length]
          exact this
  · have hs : (register strat st cs f infos fl).1 = st := by simp [register, hfl]
    have hg : ghostStep g (.register cs f infos fl) = g := by
      cases cs with
      | none => rfl
      | some c => cases fl with
        | zero => exact absurd rfl hfl
        | succ n => rfl
    rw [hs, hg]; exact H

theorem restrictKinds_inv (strat : Strategy) {st : State} {g : Ghost} (H : Inv st g) (r : Nat) :
    Inv (restrictKinds strat st r)
      { root := r, cov := g.cov &&& r, ow := fun p x => g.ow p x ∧ r.testBit p = true } := by
  have hmem : ∀ k, k ∈ (st.kinds.map (fun k => { k with cpuset := k.cpuset &&& r })).filter
        (fun k => decide (k.cpuset ≠ 0)) ↔
      ∃ k0 ∈ st.kinds, k = { k0 with cpuset := k0.cpuset &&& r } ∧ k0.cpuset &&& r ≠ 0 := by
    intro k
    simp only [List.mem_filter, List.mem_map, decide_eq_true_eq]
    constructor
    · rintro ⟨⟨k0, hk0, e⟩, hne⟩
      subst e; exact ⟨k0, hk0, rfl, hne⟩
    · rintro ⟨k0, hk0, e, hne⟩
      subst e; exact ⟨⟨k0, hk0, rfl⟩, hne⟩
  have K : KInv ((st.kinds.map (fun k => { k with cpuset := k.cpuset &&& r })).filter
      (fun k => decide (k.cpuset ≠ 0))) (g.cov &&& r) (fun p x => g.ow p x ∧ r.testBit p = true) := by
    refine ⟨?_, ?_, ?_, ?_, ?_, ?_⟩
    · intro k hk
      obtain ⟨k0, _, e, hne⟩ := (hmem k).mp hk
      subst e; exact hne
    · apply List.Pairwise.filter
      apply List.Pairwise.map _ _ H.k.dj
      intro a b hab
      rw [and_eq_zero_iff_bits] at hab ⊢
      intro p h1 h2
      simp only [Nat.testBit_and] at h1 h2
      apply hab p
      · cases ha : a.cpuset.testBit p <;> simp_all
      · cases hb : b.cpuset.testBit p <;> simp_all
    · intro k hk
      obtain ⟨k0, hk0, e, _⟩ := (hmem k).mp hk
      subst e; exact H.k.nd k0 hk0
    · intro p
      rw [Nat.testBit_and, Bool.and_eq_true, ← H.k.cov p]
      constructor
      · rintro ⟨k, hk, hp⟩
        obtain ⟨k0, hk0, e, _⟩ := (hmem k).mp hk
        subst e
        simp only [Nat.testBit_and, Bool.and_eq_true] at hp
        exact ⟨⟨k0, hk0, hp.1⟩, hp.2⟩
      · rintro ⟨⟨k0, hk0, hp⟩, hr⟩
        refine ⟨{ k0 with cpuset := k0.cpuset &&& r }, (hmem _).mpr ⟨k0, hk0, rfl, ?_⟩, ?_⟩
        · rw [ne_zero_iff_bits]; exact ⟨p, by rw [Nat.testBit_and, hp, hr]; rfl⟩
        · show (k0.cpuset &&& r).testBit p = true
          rw [Nat.testBit_and, hp, hr]; rfl
    · intro k hk p hp x
      obtain ⟨k0, hk0, e, _⟩ := (hmem k).mp hk
      subst e
      have hp' : (k0.cpuset &&& r).testBit p = true := hp
      simp only [Nat.testBit_and, Bool.and_eq_true] at hp'
      show x ∈ k0.infos ↔ _
      rw [H.k.inf k0 hk0 p hp'.1 x]
      simp [hp'.2]
    · intro k hk
      obtain ⟨k0, hk0, e, _⟩ := (hmem k).mp hk
      subst e; exact H.k.frc k0 hk0
  have hle := List.length_filter_le (fun k : Kind => decide (k.cpuset ≠ 0))
    (st.kinds.map (fun k => { k with cpuset := k.cpuset &&& r }))
  have hlm : (st.kinds.map (fun k => ({ k with cpuset := k.cpuset &&& r } : Kind))).length = st.kinds.length :=
    List.length_map _
  have howz : ∀ p x, (g.ow p x ∧ r.testBit p = true) → (g.cov &&& r).testBit p = true := by
    intro p x ⟨h1, h2⟩
    rw [Nat.testBit_and, H.owz p x h1, h2]; rfl
  unfold restrictKinds
  simp only []
  split
  · rename_i hrem
    refine ⟨K, howz, rfl, ?_, ?_⟩
    · show (List.filter _ _).length + st.stale.length ≤ st.alloc
      have := H.cap; omega
    · have hlen : ((st.kinds.map (fun k => ({ k with cpuset := k.cpuset &&& r } : Kind))).filter
          (fun k => decide (k.cpuset ≠ 0))).length =
          (st.kinds.map (fun k => ({ k with cpuset := k.cpuset &&& r } : Kind))).length := by omega
      have hall := List.length_filter_eq_length_iff.mp hlen
      show EffShape (List.filter _ _)
      rw [List.filter_eq_self.mpr hall]
      exact effShape_map _ (fun _ => rfl) H.eff
  · rename_i hrem
    refine ⟨K.transfer (rank_sameCore strat _), howz, rfl, ?_, rank_effShape strat _⟩
    show (rank strat _).length + (List.replicate _ _ ++ st.stale).length ≤ st.alloc
    rw [(rank_sameCore strat _).length]
    simp only [List.length_append, List.length_replicate]
    have := H.cap; omega

theorem restrict_inv (strat : Strategy) {st : State} {g : Ghost} (H : Inv st g) (set : Nat) :
    Inv (restrict strat st set).1 (ghostStep g (.restrict set)) := by
  by_cases h : st.root &&& set = 0
  · have h1 : (restrict strat st set).1 = st := by simp [restrict, h]
    have h2 : ghostStep g (.restrict set) = g := by
      show (if g.root &&& set = 0 then g else _) = _
      rw [H.root, if_pos h]
    rw [h1, h2]; exact H
  · have h1 : (restrict strat st set).1 = restrictKinds strat st (st.root &&& set) := by simp [restrict, h]
    have h2 : ghostStep g (.restrict set) =
        { root := st.root &&& set, cov := g.cov &&& (st.root &&& set),
          ow := fun p x => g.ow p x ∧ (st.root &&& set).testBit p = true } := by
      show (if g.root &&& set = 0 then g else _) = _
      rw [H.root, if_neg h]
    rw [h1, h2]; exact restrictKinds_inv strat H _

theorem dup_inv {st : State} {g : Ghost} (H : Inv st g) : Inv (dup st) g := by
  refine ⟨H.k.transfer (SameCore.of_map (fun k => { k with dupd := true }) (fun _ => rfl)), H.owz, H.root, ?_,
    effShape_map (fun k => { k with dupd := true }) (fun _ => rfl) H.eff⟩
  show (List.map _ _).length + ([] : List Bool).length ≤ st.kinds.length
  simp

theorem refresh_inv (strat : Strategy) {st : State} {g : Ghost} (H : Inv st g) : Inv (refresh strat st) g := by
  refine ⟨H.k.transfer (rank_sameCore strat _), H.owz, H.root, ?_, rank_effShape strat _⟩
  show (rank strat _).length + _ ≤ _
  rw [(rank_sameCore strat _).length]; exact H.cap

/-! ### XML reload is a re-registration that reproduces the array (up to `eff`, `dupd`) -/

def fresh (k : Kind) : Kind := { k with eff := -1, dupd := false }

theorem regLoop_all_diff (f : Int) (infos : List Info) (o : Bool) :
    ∀ (A : List Kind) (cs : Nat), cs ≠ 0 → NonEmpty A → (∀ a ∈ A, cs &&& a.cpuset = 0) →
      regLoop f infos o A cs = (A, [], cs) := by
  intro A
  induction A with
  | nil => intro cs _ _ _; rfl
  | cons a A ih =>
    intro cs hcs hne hd
    have hr := rel_different_of_disj hcs (hne a List.mem_cons_self) (hd a List.mem_cons_self)
    rw [regLoop_diff f infos o a A cs hcs hr,
      ih cs hcs (fun x hx => hne x (List.mem_cons_of_mem _ hx)) (fun x hx => hd x (List.mem_cons_of_mem _ hx))]

theorem reload_fold (root : Nat) :
    ∀ (B A : List Kind) (s : State), s.kinds = A.map fresh → s.stale = [] → s.kinds.length ≤ s.alloc →
      s.root = root → NonEmpty (A ++ B) → Disjoint (A ++ B) → InfosNodup (A ++ B) →
      (B.foldl (fun s k => (internalRegister s k.cpuset k.forced k.infos 1).1) s).kinds = (A ++ B).map fresh ∧
      (B.foldl (fun s k => (internalRegister s k.cpuset k.forced k.infos 1).1) s).stale = [] ∧
      (B.foldl (fun s k => (internalRegister s k.cpuset k.forced k.infos 1).1) s).kinds.length ≤
        (B.foldl (fun s k => (internalRegister s k.cpuset k.forced k.infos 1).1) s).alloc ∧
      (B.foldl (fun s k => (internalRegister s k.cpuset k.forced k.infos 1).1) s).root = root := by
  intro B
  induction B with
  | nil => intro A s hk hs hc hr _ _ _; simpa using ⟨hk, hs, hc, hr⟩
  | cons b B ih =>
    intro A s hk hs hc hr hne hdj hnd
    rw [List.foldl_cons]
    have hb : b.cpuset ≠ 0 := hne b (by simp)
    have hAne : NonEmpty (A.map fresh) := by
      intro x hx
      obtain ⟨x0, hx0, e⟩ := List.mem_map.mp hx
      rw [← e]; exact hne x0 (List.mem_append_left _ hx0)
    have hAd : ∀ a ∈ A.map fresh, b.cpuset &&& a.cpuset = 0 := by
      intro x hx
      obtain ⟨x0, hx0, e⟩ := List.mem_map.mp hx
      rw [← e]
      have := (List.pairwise_append.mp hdj).2.2 x0 hx0 b List.mem_cons_self
      rw [Nat.and_comm]; exact this
    have hloop := regLoop_all_diff b.forced b.infos true (A.map fresh) b.cpuset hb hAne hAd
    have hinf : addInfos [] b.infos = b.infos := addInfos_nil_of_nodup _ (hnd b (by simp))
    have hst : (internalRegister s b.cpuset b.forced b.infos 1).1 =
        { s with kinds := (A ++ [b]).map fresh, alloc := max s.alloc (capFor s.kinds.length), stale := [] } := by
      simp [internalRegister, hb, regAdded, hk, hloop, hinf, hs, fresh]
    have hcap := capFor_ge s.kinds.length
    have hlen : s.kinds.length = A.length := by rw [hk, List.length_map]
    have := ih (A ++ [b]) (internalRegister s b.cpuset b.forced b.infos 1).1
      (by rw [hst]) (by rw [hst]) (by rw [hst]; simp only [List.length_map, List.length_append, List.length_singleton]
                                      omega)
      (by rw [hst]; exact hr) (by simpa using hne) (by simpa using hdj) (by simpa using hnd)
    simpa using this

theorem xmlReload_eq (strat : Strategy) {st : State} {g : Ghost} (H : Inv st g) :
    (xmlReload strat st).kinds = rank strat (st.kinds.map fresh) ∧ (xmlReload strat st).stale = [] ∧
      (xmlReload strat st).kinds.length ≤ (xmlReload strat st).alloc ∧ (xmlReload strat st).root = st.root := by
  have h := reload_fold st.root st.kinds [] { root := st.root } rfl rfl (Nat.le_refl _) rfl
    (by simpa using H.k.ne) (by simpa using H.k.dj) (by simpa using H.k.nd)
  simp only [xmlReload]
  generalize List.foldl (fun s k => (internalRegister s k.cpuset k.forced k.infos 1).1)
    ({ root := st.root } : State) st.kinds = F at h ⊢
  simp only [List.nil_append] at h
  refine ⟨by rw [h.1], h.2.1, ?_, h.2.2.2⟩
  rw [(rank_sameCore strat _).length]; exact h.2.2.1

theorem xml_inv (strat : Strategy) {st : State} {g : Ghost} (H : Inv st g) : Inv (xmlReload strat st) g := by
  have ⟨h1, h2, h3, h4⟩ := xmlReload_eq strat H
  refine ⟨?_, H.owz, by rw [h4]; exact H.root, by rw [h2]; simpa using h3, by rw [h1]; exact rank_effShape strat _⟩
  rw [h1]
  exact H.k.transfer ((SameCore.of_map fresh (fun _ => rfl)).trans (rank_sameCore strat _))

theorem step_inv (strat : Strategy) {st : State} {g : Ghost} (H : Inv st g) (op : Op) :
    Inv (step strat st op) (ghostStep g op) := by
  cases op with
  | register cs f i fl => exact register_inv strat H cs f i fl
  | restrict set => exact restrict_inv strat H set
  | dup => exact dup_inv H
  | xml => exact xml_inv strat H
  | refresh => exact refresh_inv strat H

theorem run_inv_aux (strat : Strategy) (h : List Op) :
    ∀ (st : State) (g : Ghost), Inv st g → Inv (h.foldl (step strat) st) (h.foldl ghostStep g) := by
  induction h with
  | nil => intro st g H; exact H
  | cons op ops ih => intro st g H; exact ih _ _ (step_inv strat H op)

theorem init_inv (root : Nat) : Inv { root := root } { root := root } :=
  ⟨kinv_nil _ _ rfl, fun _ _ h => h.elim, rfl, Nat.le_refl _, Or.inl (by simp)⟩

/-- the invariant holds after every history of public calls -/
theorem run_inv (strat : Strategy) (root : Nat) (h : List Op) : Inv (run strat root h) (runGhost root h) :=
  run_inv_aux strat h _ _ (init_inv root)

/-! ### get_by_cpuset -/

theorem sub_meets {s a : Nat} (hs : s ≠ 0) (h : Sub s a) : Meets s a := by
  obtain ⟨i, hi⟩ := (ne_zero_iff_bits s).mp hs
  exact ⟨i, hi, h i hi⟩

theorem byCpusetLoop_spec (s : Nat) (hs : s ≠ 0) :
    ∀ (ks : List Kind) (i : Nat), NonEmpty ks → Disjoint ks →
      (∀ j, byCpusetLoop ks s i = .idx j → ∃ n, ∃ h : n < ks.length, j = i + n ∧ Sub s ks[n].cpuset) ∧
      (byCpusetLoop ks s i = .err .exdev → (∃ k ∈ ks, Meets s k.cpuset) ∧ ∀ k ∈ ks, ¬ Sub s k.cpuset) ∧
      (byCpusetLoop ks s i = .err .enoent → ∀ k ∈ ks, ¬ Meets s k.cpuset) ∧
      byCpusetLoop ks s i ≠ .err .einval ∧ byCpusetLoop ks s i ≠ .err .ok := by
  intro ks
  induction ks with
  | nil => intro i _ _; simp [byCpusetLoop]
  | cons k ks ih =>
    intro i hne hdj
    have hne' : NonEmpty ks := fun x hx => hne x (List.mem_cons_of_mem _ hx)
    have hdj' : Disjoint ks := (List.pairwise_cons.mp hdj).2
    have hk0 : k.cpuset ≠ 0 := hne k List.mem_cons_self
    rcases rel_cases s k.cpuset with ⟨hr, e⟩ | ⟨hr, _, hl⟩ | ⟨hr, _, hnl, hrr⟩ | ⟨hr, _, _, _, hz⟩ | ⟨hr, _, hnl, _, hnz⟩
    · -- equal
      have : byCpusetLoop (k :: ks) s i = .idx i := by simp [byCpusetLoop, hr]
      rw [this]
      refine ⟨?_, by simp, by simp, by simp, by simp⟩
      intro j hj
      injection hj with hj
      exact ⟨0, by simp, by omega, by simp only [List.getElem_cons_zero]; rw [← e]; exact fun _ h => h⟩
    · -- included
      have : byCpusetLoop (k :: ks) s i = .idx i := by simp [byCpusetLoop, hr]
      rw [this]
      refine ⟨?_, by simp, by simp, by simp, by simp⟩
      intro j hj
      injection hj with hj
      exact ⟨0, by simp, by omega, by simp only [List.getElem_cons_zero]; exact (and_eq_left_iff_bits _ _).mp hl⟩
    · -- contains
      have : byCpusetLoop (k :: ks) s i = .err .exdev := by simp [byCpusetLoop, hr]
      rw [this]
      refine ⟨by simp, ?_, by simp, by simp, by simp⟩
      intro _
      have hsub : Sub k.cpuset s := (and_eq_right_iff_bits _ _).mp hrr
      have hm : Meets s k.cpuset := by
        obtain ⟨p, hp⟩ := sub_meets hk0 hsub
        exact ⟨p, hp.2, hp.1⟩
      refine ⟨⟨k, List.mem_cons_self, hm⟩, ?_⟩
      intro x hx hsx
      rcases List.mem_cons.mp hx with rfl | hx
      · exact hnl ((and_eq_left_iff_bits _ _).mpr hsx)
      · obtain ⟨p, hp1, hp2⟩ := hm
        exact (and_eq_zero_iff_bits _ _).mp ((List.pairwise_cons.mp hdj).1 x hx) p hp2 (hsx p hp1)
    · -- different
      have : byCpusetLoop (k :: ks) s i = byCpusetLoop ks s (i + 1) := by simp [byCpusetLoop, hr]
      rw [this]
      have ⟨h1, h2, h3, h4, h5⟩ := ih (i + 1) hne' hdj'
      have hnm : ¬ Meets s k.cpuset := (not_meets_iff _ _).mpr hz
      refine ⟨?_, ?_, ?_, h4, h5⟩
      · intro j hj
        obtain ⟨n, hn, e, hsub⟩ := h1 j hj
        exact ⟨n + 1, by simp; omega, by omega, by simpa using hsub⟩
      · intro he
        obtain ⟨⟨x, hx, hm⟩, hall⟩ := h2 he
        refine ⟨⟨x, List.mem_cons_of_mem _ hx, hm⟩, ?_⟩
        intro y hy hsy
        rcases List.mem_cons.mp hy with rfl | hy
        · exact hnm (sub_meets hs hsy)
        · exact hall y hy hsy
      · intro he y hy
        rcases List.mem_cons.mp hy with rfl | hy
        · exact hnm
        · exact h3 he y hy
    · -- intersects
      have : byCpusetLoop (k :: ks) s i = .err .exdev := by simp [byCpusetLoop, hr]
      rw [this]
      refine ⟨by simp, ?_, by simp, by simp, by simp⟩
      intro _
      have hm : Meets s k.cpuset := by
        apply Classical.byContradiction; intro h
        exact hnz ((not_meets_iff _ _).mp h)
      refine ⟨⟨k, List.mem_cons_self, hm⟩, ?_⟩
      intro x hx hsx
      rcases List.mem_cons.mp hx with rfl | hx
      · exact hnl ((and_eq_left_iff_bits _ _).mpr hsx)
      · obtain ⟨p, hp1, hp2⟩ := hm
        exact (and_eq_zero_iff_bits _ _).mp ((List.pairwise_cons.mp hdj).1 x hx) p hp2 (hsx p hp1)

end CpuKinds
end Hw
