/-
  Hw.Attr.DistancesLemmas — lemmas about the model of hwloc/distances.c.
-/
import Hw.Attr.Distances
namespace Hw.Dist

/-! ## functional arrays, rank -/

@[simp] theorem FArr.get_upd {α : Type} (a : FArr α) (p : Nat) (v : α) (q : Nat) :
    (a.upd p v).get q = if q = p then v else a.get q := rfl

@[simp] theorem toArr_get {α : Type} (l : List α) (d : α) (i : Nat) : (toArr l d).get i = l.getD i d := rfl

@[simp] theorem ofArr_length {α : Type} (a : FArr α) (m : Nat) : (ofArr a m).length = m := by
  simp [ofArr]

theorem ofArr_getD {α : Type} (a : FArr α) (m : Nat) (d : α) (i : Nat) (h : i < m) :
    (ofArr a m).getD i d = a.get i := by
  simp [ofArr, List.getD, h]

theorem ofArr_getElem? {α : Type} (a : FArr α) (m : Nat) (i : Nat) (h : i < m) :
    (ofArr a m)[i]? = some (a.get i) := by
  simp [ofArr, h]

theorem mem_ofArr {α : Type} (a : FArr α) (m : Nat) (x : α) : x ∈ ofArr a m ↔ ∃ i, i < m ∧ a.get i = x := by
  simp [ofArr]

@[simp] theorem rank_zero (live : Nat → Bool) : rank live 0 = 0 := rfl
theorem rank_succ (live : Nat → Bool) (j : Nat) : rank live (j+1) = rank live j + (if live j then 1 else 0) := rfl

theorem rank_succ_live (live : Nat → Bool) (j : Nat) (h : live j = true) : rank live (j+1) = rank live j + 1 := by
  simp [rank_succ, h]
theorem rank_succ_dead (live : Nat → Bool) (j : Nat) (h : ¬ live j = true) : rank live (j+1) = rank live j := by
  simp [rank_succ, h]

theorem rank_le (live : Nat → Bool) : ∀ j, rank live j ≤ j
  | 0 => Nat.le_refl 0
  | j+1 => by
    have := rank_le live j
    rw [rank_succ]; split <;> omega

theorem rank_mono (live : Nat → Bool) {i j : Nat} (h : i ≤ j) : rank live i ≤ rank live j := by
  induction j with
  | zero => have : i = 0 := by omega
            subst this; exact Nat.le_refl _
  | succ j ih =>
    rcases Nat.lt_or_ge i (j+1) with h1 | h1
    · have := ih (by omega)
      rw [rank_succ]; omega
    · have : i = j+1 := by omega
      subst this; exact Nat.le_refl _

theorem rank_lt_of_live (live : Nat → Bool) {i n : Nat} (hi : i < n) (hl : live i = true) :
    rank live i < rank live n := by
  have h1 := rank_succ_live live i hl
  have h2 := rank_mono live (show i+1 ≤ n from hi)
  omega

/-- two live indexes with the same rank are equal: `rank` numbers the survivors injectively -/
theorem rank_inj (live : Nat → Bool) {i j : Nat} (hi : live i = true) (hj : live j = true)
    (h : rank live i = rank live j) : i = j := by
  rcases Nat.lt_trichotomy i j with h1 | h1 | h1
  · have := rank_lt_of_live live h1 hi; omega
  · exact h1
  · have := rank_lt_of_live live h1 hj; omega

/-! ## the in-place compaction of the value matrix -/

theorem compactRow_spec (n k : Nat) (live : Nat → Bool) (i newi : Nat) (hWR : newi*k ≤ i*n) :
    ∀ (fuel j : Nat) (a : FArr Nat), j + fuel = n →
      (∀ j', j ≤ j' → j' < n → live j' = true →
        (compactRow n k live i newi fuel j (rank live j) a).get (newi*k + rank live j') = a.get (i*n + j')) ∧
      (∀ p, (p < newi*k + rank live j ∨ newi*k + rank live n ≤ p) →
        (compactRow n k live i newi fuel j (rank live j) a).get p = a.get p) := by
  intro fuel
  induction fuel with
  | zero =>
    intro j a hj
    refine ⟨fun j' h1 h2 _ => by omega, fun p _ => rfl⟩
  | succ f ih =>
    intro j a hj
    have hjn : j < n := by omega
    have hrj := rank_le live j
    unfold compactRow
    by_cases hl : live j = true
    · simp only [hl, if_true]
      rw [← rank_succ_live live j hl]
      obtain ⟨ih1, ih2⟩ := ih (j+1) (a.upd (newi*k + rank live j) (a.get (i*n+j))) (by omega)
      have hrs := rank_succ_live live j hl
      have hlt := rank_lt_of_live live hjn hl
      constructor
      · intro j' h1 h2 h3
        rcases Nat.eq_or_lt_of_le h1 with e | e
        · subst e
          rw [ih2 _ (Or.inl (by omega))]
          simp
        · rw [ih1 j' (by omega) h2 h3]
          simp only [FArr.get_upd]
          rw [if_neg (by omega)]
      · intro p hp
        rw [ih2 p (by omega)]
        simp only [FArr.get_upd]
        rw [if_neg (by omega)]
    · simp only [hl]
      rw [← rank_succ_dead live j hl]
      obtain ⟨ih1, ih2⟩ := ih (j+1) a (by omega)
      have hrs := rank_succ_dead live j hl
      constructor
      · intro j' h1 h2 h3
        rcases Nat.eq_or_lt_of_le h1 with e | e
        · subst e; exact absurd h3 hl
        · exact ih1 j' (by omega) h2 h3
      · intro p hp
        exact ih2 p (by omega)

theorem compactRows_spec (n k : Nat) (live : Nat → Bool) (hk : k = rank live n) :
    ∀ (fuel i : Nat) (a : FArr Nat), i + fuel = n →
      (∀ i', i ≤ i' → i' < n → live i' = true → ∀ j', j' < n → live j' = true →
        (compactRows n k live fuel i (rank live i) a).get (rank live i' * k + rank live j') = a.get (i'*n + j')) ∧
      (∀ p, p < rank live i * k → (compactRows n k live fuel i (rank live i) a).get p = a.get p) := by
  intro fuel
  induction fuel with
  | zero =>
    intro i a hi
    refine ⟨fun i' h1 h2 _ => by omega, fun p _ => rfl⟩
  | succ f ih =>
    intro i a hi
    have hin : i < n := by omega
    have hkn : k ≤ n := by rw [hk]; exact rank_le live n
    have hWR : rank live i * k ≤ i * n := Nat.mul_le_mul (rank_le live i) hkn
    unfold compactRows
    by_cases hl : live i = true
    · simp only [hl, if_true]
      rw [← rank_succ_live live i hl]
      obtain ⟨r1, r2⟩ := compactRow_spec n k live i (rank live i) hWR n 0 a (by omega)
      simp only [rank_zero, Nat.add_zero] at r1 r2
      obtain ⟨ih1, ih2⟩ := ih (i+1) (compactRow n k live i (rank live i) n 0 0 a) (by omega)
      have hrs := rank_succ_live live i hl
      have hmul : (rank live i + 1) * k = rank live i * k + k := by rw [Nat.add_mul, Nat.one_mul]
      constructor
      · intro i' h1 h2 h3 j' h4 h5
        have hj' : rank live j' < k := by rw [hk]; exact rank_lt_of_live live h4 h5
        rcases Nat.eq_or_lt_of_le h1 with e | e
        · subst e
          rw [ih2 _ (by rw [hrs, hmul]; omega)]
          exact r1 j' (Nat.zero_le _) h4 h5
        · rw [ih1 i' (by omega) h2 h3 j' h4 h5]
          have h6 : (i+1) * n ≤ i' * n := Nat.mul_le_mul_right n (by omega)
          have h7 : (i+1) * n = i*n + n := by rw [Nat.add_mul, Nat.one_mul]
          exact r2 _ (Or.inr (by rw [← hk]; omega))
      · intro p hp
        rw [ih2 p (by rw [hrs, hmul]; omega)]
        exact r2 p (Or.inl hp)
    · simp only [hl]
      rw [← rank_succ_dead live i hl]
      obtain ⟨ih1, ih2⟩ := ih (i+1) a (by omega)
      have hrs := rank_succ_dead live i hl
      constructor
      · intro i' h1 h2 h3 j' h4 h5
        rcases Nat.eq_or_lt_of_le h1 with e | e
        · subst e; exact absurd h3 hl
        · exact ih1 i' (by omega) h2 h3 j' h4 h5
      · intro p hp
        exact ih2 p hp

/-- **the in-place overwrite never destroys a cell that is still to be read**: for every `n`, every
survivor mask `live` and every matrix `a`, the cell of survivors `(i,j)` ends up at row `rank i`,
column `rank j` of the `k×k` matrix, `k = rank live n` survivors -/
theorem compactVals_spec (n : Nat) (live : Nat → Bool) (a : FArr Nat) (i j : Nat)
    (hi : i < n) (hj : j < n) (li : live i = true) (lj : live j = true) :
    (compactVals n (rank live n) live a).get (rank live i * rank live n + rank live j) = a.get (i*n + j) := by
  have h := (compactRows_spec n (rank live n) live rfl n 0 a (by omega)).1 i (Nat.zero_le _) hi li j hj lj
  simpa [compactVals] using h

/-! ## the in-place compaction of objs / indexes / different_types -/

theorem compactObjs_spec (n : Nat) (o0 : FArr (Option Obj)) (x0 : FArr Nat) (t0 : FArr Int) :
    ∀ (fuel i : Nat) (o : FArr (Option Obj)) (x : FArr Nat) (t : FArr Int), i + fuel = n →
      (∀ q, i ≤ q → o.get q = o0.get q ∧ x.get q = x0.get q ∧ t.get q = t0.get q) →
      (∀ i', i ≤ i' → i' < n → (o0.get i').isSome = true →
        (compactObjs fuel i (rank (fun q => (o0.get q).isSome) i) o x t).1.get (rank (fun q => (o0.get q).isSome) i') = o0.get i' ∧
        (compactObjs fuel i (rank (fun q => (o0.get q).isSome) i) o x t).2.1.get (rank (fun q => (o0.get q).isSome) i') = x0.get i' ∧
        (compactObjs fuel i (rank (fun q => (o0.get q).isSome) i) o x t).2.2.get (rank (fun q => (o0.get q).isSome) i') = t0.get i') ∧
      (∀ p, p < rank (fun q => (o0.get q).isSome) i →
        (compactObjs fuel i (rank (fun q => (o0.get q).isSome) i) o x t).1.get p = o.get p ∧
        (compactObjs fuel i (rank (fun q => (o0.get q).isSome) i) o x t).2.1.get p = x.get p ∧
        (compactObjs fuel i (rank (fun q => (o0.get q).isSome) i) o x t).2.2.get p = t.get p) := by
  intro fuel
  induction fuel with
  | zero =>
    intro i o x t hi _
    refine ⟨fun i' h1 h2 _ => by omega, fun p _ => ⟨rfl, rfl, rfl⟩⟩
  | succ f ih =>
    intro i o x t hi hinv
    have hri := rank_le (fun q => (o0.get q).isSome) i
    obtain ⟨ho, hx, ht⟩ := hinv i (Nat.le_refl _)
    unfold compactObjs
    by_cases hl : (o0.get i).isSome = true
    · have hl' : (o.get i).isSome = true := by rw [ho]; exact hl
      simp only [hl', if_true]
      have hrs := rank_succ_live (fun q => (o0.get q).isSome) i hl
      rw [← hrs]
      obtain ⟨ih1, ih2⟩ := ih (i+1) (o.upd (rank (fun q => (o0.get q).isSome) i) (o.get i))
        (x.upd (rank (fun q => (o0.get q).isSome) i) (x.get i)) (t.upd (rank (fun q => (o0.get q).isSome) i) (t.get i))
        (by omega) (by
          intro q hq
          obtain ⟨a1, a2, a3⟩ := hinv q (by omega)
          simp only [FArr.get_upd]
          rw [if_neg (by omega), if_neg (by omega), if_neg (by omega)]
          exact ⟨a1, a2, a3⟩)
      constructor
      · intro i' h1 h2 h3
        rcases Nat.eq_or_lt_of_le h1 with e | e
        · subst e
          obtain ⟨b1, b2, b3⟩ := ih2 (rank (fun q => (o0.get q).isSome) i) (by omega)
          rw [b1, b2, b3]
          simp only [FArr.get_upd, if_true]
          exact ⟨ho, hx, ht⟩
        · exact ih1 i' (by omega) h2 h3
      · intro p hp
        obtain ⟨b1, b2, b3⟩ := ih2 p (by omega)
        rw [b1, b2, b3]
        simp only [FArr.get_upd]
        rw [if_neg (by omega), if_neg (by omega), if_neg (by omega)]
        exact ⟨rfl, rfl, rfl⟩
    · have hl' : ¬ (o.get i).isSome = true := by rw [ho]; exact hl
      simp only [hl']
      have hrs := rank_succ_dead (fun q => (o0.get q).isSome) i hl
      rw [← hrs]
      obtain ⟨ih1, ih2⟩ := ih (i+1) o x t (by omega) (fun q hq => hinv q (by omega))
      constructor
      · intro i' h1 h2 h3
        rcases Nat.eq_or_lt_of_le h1 with e | e
        · subst e; exact absurd h3 hl
        · exact ih1 i' (by omega) h2 h3
      · intro p hp
        exact ih2 p (by omega)

end Hw.Dist

namespace Hw.Dist

/-! ## rank: further facts -/

theorem rank_all_live (live : Nat → Bool) : ∀ n, (∀ i, i < n → live i = true) → rank live n = n
  | 0, _ => rfl
  | n+1, h => by
    rw [rank_succ_live live n (h n (Nat.lt_succ_self n)), rank_all_live live n (fun i hi => h i (Nat.lt_succ_of_lt hi))]

/-- every position below the number of survivors is the rank of a survivor -/
theorem rank_surj (live : Nat → Bool) : ∀ n p, p < rank live n → ∃ i, i < n ∧ live i = true ∧ rank live i = p
  | 0, p, h => by simp at h
  | n+1, p, h => by
    by_cases hl : live n = true
    · rw [rank_succ_live live n hl] at h
      rcases Nat.lt_or_ge p (rank live n) with h1 | h1
      · obtain ⟨i, hi, h2, h3⟩ := rank_surj live n p h1
        exact ⟨i, Nat.lt_succ_of_lt hi, h2, h3⟩
      · exact ⟨n, Nat.lt_succ_self n, hl, by omega⟩
    · rw [rank_succ_dead live n hl] at h
      obtain ⟨i, hi, h2, h3⟩ := rank_surj live n p h
      exact ⟨i, Nat.lt_succ_of_lt hi, h2, h3⟩

theorem rank_shift (live : Nat → Bool) : ∀ n, rank live (n+1) = (if live 0 then 1 else 0) + rank (fun q => live (q+1)) n
  | 0 => by simp [rank_succ]
  | n+1 => by
    rw [rank_succ live (n+1), rank_shift live n, rank_succ (fun q => live (q+1)) n]
    omega

/-- the survivor mask read by `hwloc_internal_distances_restrict` -/
def liveOf (objs : List (Option Obj)) : Nat → Bool := fun q => (objs.getD q none).isSome

theorem rank_add_countNone (objs : List (Option Obj)) :
    rank (fun q => (objs.getD q none).isSome) objs.length + countNone objs = objs.length := by
  induction objs with
  | nil => rfl
  | cons a l ih =>
    rw [List.length_cons, rank_shift]
    have e : (fun q => ((a :: l).getD (q+1) none).isSome) = (fun q => (l.getD q none).isSome) := by
      funext q; simp [List.getD]
    rw [e]
    unfold countNone at *
    rw [List.countP_cons]
    cases a <;> simp [List.getD] at ih ⊢ <;> omega

theorem rank_eq_sub_countNone (objs : List (Option Obj)) (n : Nat) (h : objs.length = n) :
    n - countNone objs = rank (liveOf objs) n := by
  have := rank_add_countNone objs
  unfold liveOf
  rw [h] at this; omega

theorem countNone_le (objs : List (Option Obj)) : countNone objs ≤ objs.length := List.countP_le_length

theorem all_live_of_countNone_zero (objs : List (Option Obj)) (h : countNone objs = 0) (i : Nat) (hi : i < objs.length) :
    (objs.getD i none).isSome = true := by
  unfold countNone at h
  rw [List.countP_eq_zero] at h
  have hm : objs[i] ∈ objs := List.getElem_mem hi
  have := h _ hm
  simp only [List.getD, List.getElem?_eq_getElem hi, Option.getD_some]
  cases hx : objs[i] with
  | none => rw [hx] at this; simp at this
  | some _ => rfl

/-! ## `compactLists` at list level -/

section CompactLists
variable (n : Nat) (objs : List (Option Obj)) (idx : List Nat) (tys : List Int) (vals : List Nat)

theorem compactLists_vals (i j : Nat) (hi : i < n) (hj : j < n)
    (li : liveOf objs i = true) (lj : liveOf objs j = true) :
    (compactLists n (rank (liveOf objs) n) objs idx tys vals).2.2.2.getD
        (rank (liveOf objs) i * rank (liveOf objs) n + rank (liveOf objs) j) 0 = vals.getD (i*n + j) 0 := by
  have h1 := rank_lt_of_live (liveOf objs) hi li
  have h2 := rank_lt_of_live (liveOf objs) hj lj
  have h3 : (rank (liveOf objs) i + 1) * rank (liveOf objs) n ≤ rank (liveOf objs) n * rank (liveOf objs) n :=
    Nat.mul_le_mul_right _ h1
  have h4 : (rank (liveOf objs) i + 1) * rank (liveOf objs) n
      = rank (liveOf objs) i * rank (liveOf objs) n + rank (liveOf objs) n := by rw [Nat.add_mul, Nat.one_mul]
  show (ofArr _ _).getD _ _ = _
  rw [ofArr_getD _ _ _ _ (by omega)]
  exact compactVals_spec n (liveOf objs) (toArr vals 0) i j hi hj li lj

theorem compactLists_objs (i : Nat) (hi : i < n) (li : liveOf objs i = true) :
    (compactLists n (rank (liveOf objs) n) objs idx tys vals).1.getD (rank (liveOf objs) i) none = objs.getD i none ∧
    (compactLists n (rank (liveOf objs) n) objs idx tys vals).2.1.getD (rank (liveOf objs) i) 0 = idx.getD i 0 ∧
    (compactLists n (rank (liveOf objs) n) objs idx tys vals).2.2.1.getD (rank (liveOf objs) i) (-1) = tys.getD i (-1) := by
  have h1 := rank_lt_of_live (liveOf objs) hi li
  have h := (compactObjs_spec n (toArr objs none) (toArr idx 0) (toArr tys (-1)) n 0
    (toArr objs none) (toArr idx 0) (toArr tys (-1)) (by omega) (fun q _ => ⟨rfl, rfl, rfl⟩)).1 i (Nat.zero_le _) hi li
  simp only [rank_zero] at h
  obtain ⟨a1, a2, a3⟩ := h
  refine ⟨?_, ?_, ?_⟩
  · show (ofArr _ _).getD _ _ = _
    rw [ofArr_getD _ _ _ _ h1]; exact a1
  · show (ofArr _ _).getD _ _ = _
    rw [ofArr_getD _ _ _ _ h1]; exact a2
  · show (ofArr _ _).getD _ _ = _
    rw [ofArr_getD _ _ _ _ h1]; exact a3

theorem compactLists_lengths (k : Nat) :
    (compactLists n k objs idx tys vals).1.length = k ∧ (compactLists n k objs idx tys vals).2.1.length = k ∧
    (compactLists n k objs idx tys vals).2.2.1.length = k ∧ (compactLists n k objs idx tys vals).2.2.2.length = k*k := by
  simp [compactLists]

/-- after compaction every slot of `objs` is one of the original non-NULL entries -/
theorem compactLists_objs_mem (x : Option Obj)
    (hx : x ∈ (compactLists n (rank (liveOf objs) n) objs idx tys vals).1) :
    ∃ i, i < n ∧ liveOf objs i = true ∧ x = objs.getD i none := by
  have hlen := (compactLists_lengths n objs idx tys vals (rank (liveOf objs) n)).1
  obtain ⟨p, hp, rfl⟩ := List.getElem_of_mem hx
  rw [hlen] at hp
  obtain ⟨i, hi, li, hr⟩ := rank_surj (liveOf objs) n p hp
  refine ⟨i, hi, li, ?_⟩
  have := (compactLists_objs n objs idx tys vals i hi li).1
  rw [hr] at this
  rw [← this]
  simp [List.getD, List.getElem?_eq_getElem (by rw [hlen]; exact hp)]

end CompactLists

end Hw.Dist

namespace Hw.Dist

/-! ## refresh -/

theorem refreshOne_valid (T : Topo) (d : Dist) (h : d.valid = true) : refreshOne T d = some d := by
  simp [refreshOne, h]

@[simp] theorem resolveAll_length (T : Topo) (d : Dist) : (resolveAll T d).length = d.n := by
  simp [resolveAll]

theorem resolve_mem (T : Topo) (uniq ty : Int) (ix : Nat) (o : Obj) (h : resolve T uniq ty ix = some o) : o ∈ T := by
  unfold resolve at h
  split at h <;> exact List.mem_of_find?_eq_some h

theorem resolveAll_getD_mem (T : Topo) (d : Dist) (i : Nat) (o : Obj)
    (h : (resolveAll T d).getD i none = some o) : o ∈ T := by
  unfold resolveAll at h
  by_cases hi : i < d.n
  · simp [List.getD, hi] at h
    exact resolve_mem _ _ _ _ _ h
  · simp [List.getD, hi] at h

theorem refreshOne_none_iff (T : Topo) (d : Dist) (hv : d.valid = false) :
    refreshOne T d = none ↔ rank (liveOf (resolveAll T d)) d.n < 2 := by
  have hr := rank_eq_sub_countNone (resolveAll T d) d.n (resolveAll_length T d)
  unfold refreshOne
  simp only [hv, Bool.false_eq_true, if_false]
  by_cases h2 : d.n - countNone (resolveAll T d) < 2
  · simp only [h2, if_true, true_iff]
    rw [← hr] ; exact h2
  · simp only [h2, if_false]
    have : ¬ rank (liveOf (resolveAll T d)) d.n < 2 := by rw [← hr]; exact h2
    split <;> simp [this]

theorem refreshOne_some_spec (T : Topo) (d d' : Dist) (hv : d.valid = false) (h : refreshOne T d = some d') :
    d'.id = d.id ∧ d'.name = d.name ∧ d'.kind = d.kind ∧ d'.uniq = d.uniq ∧ d'.hetero = d.hetero ∧ d'.valid = true ∧
    d'.n = rank (liveOf (resolveAll T d)) d.n ∧ 2 ≤ d'.n ∧ d'.objs.length = d'.n ∧
    (∀ i, i < d.n → liveOf (resolveAll T d) i = true →
       d'.objs.getD (rank (liveOf (resolveAll T d)) i) none = (resolveAll T d).getD i none ∧
       d'.idx.getD (rank (liveOf (resolveAll T d)) i) 0 = d.idx.getD i 0) ∧
    (∀ i j, i < d.n → j < d.n → liveOf (resolveAll T d) i = true → liveOf (resolveAll T d) j = true →
       d'.vals.getD (rank (liveOf (resolveAll T d)) i * d'.n + rank (liveOf (resolveAll T d)) j) 0
         = d.vals.getD (i*d.n + j) 0) ∧
    (∀ x, x ∈ d'.objs → ∃ o, x = some o ∧ o ∈ T) := by
  have hr := rank_eq_sub_countNone (resolveAll T d) d.n (resolveAll_length T d)
  unfold refreshOne at h
  simp only [hv, Bool.false_eq_true, if_false] at h
  by_cases h2 : d.n - countNone (resolveAll T d) < 2
  · simp [h2] at h
  · simp only [h2, if_false] at h
    by_cases h0 : countNone (resolveAll T d) ≠ 0
    · simp only [hr] at h
      rw [if_pos h0] at h
      simp only [Option.some.injEq] at h
      subst h
      have hk2 : 2 ≤ rank (liveOf (resolveAll T d)) d.n := by rw [← hr]; omega
      refine ⟨rfl, rfl, rfl, rfl, rfl, rfl, rfl, hk2, ?_, ?_, ?_, ?_⟩
      · exact (compactLists_lengths d.n (resolveAll T d) d.idx d.tys d.vals _).1
      · intro i hi li
        have := compactLists_objs d.n (resolveAll T d) d.idx d.tys d.vals i hi li
        exact ⟨this.1, this.2.1⟩
      · intro i j hi hj li lj
        exact compactLists_vals d.n (resolveAll T d) d.idx d.tys d.vals i j hi hj li lj
      · intro x hx
        obtain ⟨i, hi, li, rfl⟩ := compactLists_objs_mem d.n (resolveAll T d) d.idx d.tys d.vals x hx
        unfold liveOf at li
        cases hx' : (resolveAll T d).getD i none with
        | none => rw [hx'] at li; simp at li
        | some o => exact ⟨o, rfl, resolveAll_getD_mem T d i o hx'⟩
    · have h0' : countNone (resolveAll T d) = 0 := by omega
      simp only [h0', ne_eq, not_true_eq_false, if_false, Option.some.injEq] at h
      subst h
      have hall : ∀ i, i < d.n → liveOf (resolveAll T d) i = true := fun i hi =>
        all_live_of_countNone_zero _ h0' i (by rw [resolveAll_length]; exact hi)
      have hrk : ∀ i, i ≤ d.n → rank (liveOf (resolveAll T d)) i = i := fun i hi =>
        rank_all_live _ i (fun q hq => hall q (by omega))
      refine ⟨rfl, rfl, rfl, rfl, rfl, rfl, (hrk d.n (Nat.le_refl _)).symm, by show 2 ≤ d.n; omega, resolveAll_length T d, ?_, ?_, ?_⟩
      · intro i hi _
        rw [hrk i (by omega)]; exact ⟨rfl, rfl⟩
      · intro i j hi hj _ _
        rw [hrk i (by omega), hrk j (by omega)]
      · intro x hx
        obtain ⟨p, hp, rfl⟩ := List.getElem_of_mem hx
        have hp' : p < d.n := by simpa using hp
        have li := hall p hp'
        unfold liveOf at li
        have e : (resolveAll T d).getD p none = (resolveAll T d)[p] := by
          simp [List.getD, List.getElem?_eq_getElem hp]
        cases hx' : (resolveAll T d)[p] with
        | none => rw [e, hx'] at li; simp at li
        | some o => exact ⟨o, rfl, resolveAll_getD_mem T d p o (by rw [e, hx'])⟩

/-! ## adding, getting, removing -/

theorem addCreate_error_iff (st : State) (name : Option String) (kind flags : Nat) :
    (∃ e, addCreate st name kind flags = .error e) ↔ (kindOk kind = false ∨ flags ≠ 0) := by
  unfold addCreate
  by_cases hk : kindOk kind = true
  · by_cases hf : flags = 0 <;> simp [hk, hf]
  · simp [hk]

theorem addValues_lt2 (h : Dist) (n : Nat) (objs : List (Option Obj)) (vals : List Nat) (flags : Nat) (hn : n < 2) :
    addValues h n objs vals flags = .error .EINVAL := by
  unfold addValues
  split
  · rfl
  · split
    · rfl
    · simp [hn]

theorem addValues_flags (h : Dist) (n : Nat) (objs : List (Option Obj)) (vals : List Nat) (flags : Nat) (hf : flags ≠ 0) :
    addValues h n objs vals flags = .error .EINVAL := by
  unfold addValues
  split
  · rfl
  · split
    · rfl
    · simp [hf]

/-- any NULL object: EINVAL -/
theorem addValues_null (h : Dist) (n : Nat) (objs : List (Option Obj)) (vals : List Nat) (flags : Nat)
    (hn : none ∈ objs) : addValues h n objs vals flags = .error .EINVAL := by
  have : objs.any (fun o => o.isNone) = true := List.any_eq_true.mpr ⟨none, hn, rfl⟩
  simp [addValues, this]

theorem addCommit_flags (st : State) (h : Dist) (flags : Nat) (hf : flags &&& ADD_FLAG_ALL ≠ flags) :
    addCommit st h flags = .error .EINVAL := by
  simp [addCommit, hf]

theorem addCommit_ok (st : State) (h : Dist) (flags : Nat) (hf : flags &&& ADD_FLAG_ALL = flags) (hn : h.n ≠ 0) :
    addCommit st h flags = .ok { st with dists := st.dists ++ [h] } := by
  simp [addCommit, hf, hn]

/-- `add_values` with `n ≥ 2` non-NULL objects on a fresh handle -/
theorem addValues_ok (h : Dist) (n : Nat) (os : List Obj) (vals : List Nat)
    (hn : 2 ≤ n) (hlen : os.length = n) (h0 : h.n = 0) :
    addValues h n (os.map some) vals 0 = .ok
      { h with n := n, objs := os.map some, valid := true,
               uniq := uniqueType (os.map some), hetero := uniqueType (os.map some) == TY_NONE,
               idx := (os.map some).map (fun o => match o with
                  | some x => (if useOs (uniqueType (os.map some)) then x.os else x.gp) | none => 0),
               tys := if uniqueType (os.map some) == TY_NONE then
                   (os.map some).map (fun o => match o with | some x => x.ty | none => TY_NONE) else [],
               vals := vals,
               kind := if uniqueType (os.map some) == TY_NONE then h.kind ||| KIND_HETEROGENEOUS else h.kind } := by
  have hc : countNone (os.map some) = 0 := by
    unfold countNone; rw [List.countP_eq_zero]; intro a ha
    obtain ⟨x, _, rfl⟩ := List.mem_map.mp ha; simp
  have hany : (os.map some).any (fun o => o.isNone) = false := by
    rw [List.any_eq_false]; intro a ha
    obtain ⟨x, _, rfl⟩ := List.mem_map.mp ha; simp
  unfold addValues
  simp only [hany, Bool.false_eq_true, if_false, h0, ne_eq, not_true_eq_false, hc]
  have hn' : ¬ n < 2 := by omega
  have hn0 : ¬ (0 == n) = true := by simp; omega
  simp [hn', hn0]
  split <;> rfl

theorem refreshList_append_valid (T : Topo) (ds : List Dist) (d : Dist) (hv : d.valid = true) :
    refreshList T (ds ++ [d]) = refreshList T ds ++ [d] := by
  simp [refreshList, List.filterMap_append, refreshOne_valid T d hv]

theorem getCore_nr (st : State) (name : Option String) (ty : Int) (kind cap : Nat) :
    (getCore st name ty kind cap).2.1 = ((refreshList st.topo st.dists).filter (matchesFilter name ty kind)).length ∧
    (getCore st name ty kind cap).2.2 =
      (((refreshList st.topo st.dists).filter (matchesFilter name ty kind)).take cap).map Dist.pub := by
  simp [getCore, State.refresh]

theorem refreshList_ids (T : Topo) (ds : List Dist) (d' : Dist) (h : d' ∈ refreshList T ds) :
    ∃ d, d ∈ ds ∧ d'.id = d.id ∧ d'.name = d.name ∧ d'.kind = d.kind ∧ d'.uniq = d.uniq := by
  unfold refreshList at h
  obtain ⟨d, hd, hr⟩ := List.mem_filterMap.mp h
  refine ⟨d, hd, ?_⟩
  by_cases hv : d.valid = true
  · rw [refreshOne_valid T d hv] at hr
    cases hr; exact ⟨rfl, rfl, rfl, rfl⟩
  · have hv' : d.valid = false := by cases hx : d.valid <;> simp_all
    have := refreshOne_some_spec T d d' hv' hr
    exact ⟨this.1, this.2.1, this.2.2.1, this.2.2.2.1⟩

theorem removeByDepth_mem (st st' : State) (ty : Int) (h : removeByDepth st ty = .ok st') (d : Dist) :
    d ∈ st'.dists ↔ (d ∈ st.dists ∧ d.uniq ≠ ty) := by
  unfold removeByDepth at h
  split at h
  · cases h
  · cases h
    simp [List.mem_filter]

theorem removeByDepth_sublist (st st' : State) (ty : Int) (h : removeByDepth st ty = .ok st') :
    st'.dists.Sublist st.dists ∧ st'.topo = st.topo ∧ st'.nextId = st.nextId := by
  unfold removeByDepth at h
  split at h
  · cases h
  · cases h
    exact ⟨List.filter_sublist, rfl, rfl⟩

theorem fromPublic_some (ds : List Dist) (id : Nat) (d : Dist) (h : fromPublic ds id = some d) : d ∈ ds ∧ d.id = id := by
  unfold fromPublic at h
  have h1 := List.mem_of_find?_eq_some h
  have h2 := List.find?_some h
  exact ⟨h1, by simpa using h2⟩

theorem fromPublic_none (ds : List Dist) (id : Nat) (h : fromPublic ds id = none) : ∀ d, d ∈ ds → d.id ≠ id := by
  unfold fromPublic at h
  intro d hd
  have := List.find?_eq_none.mp h d hd
  simpa using this

/-- erasing by id from a list with pairwise distinct ids removes exactly the structures with that id -/
theorem eraseP_id_mem (ds : List Dist) (id : Nat) (hnd : (ds.map Dist.id).Nodup) (d : Dist) :
    d ∈ ds.eraseP (fun x => x.id == id) ↔ (d ∈ ds ∧ d.id ≠ id) := by
  induction ds with
  | nil => simp
  | cons a l ih =>
    simp only [List.map_cons, List.nodup_cons] at hnd
    by_cases ha : a.id = id
    · rw [List.eraseP_cons_of_pos (by simp [ha])]
      constructor
      · intro hd
        refine ⟨List.mem_cons_of_mem _ hd, ?_⟩
        intro hdi
        exact hnd.1 (List.mem_map.mpr ⟨d, hd, by rw [hdi, ha]⟩)
      · intro ⟨hd, hdi⟩
        rcases List.mem_cons.mp hd with e | e
        · subst e; exact absurd ha hdi
        · exact e
    · rw [List.eraseP_cons_of_neg (by simp [ha])]
      simp only [List.mem_cons, ih hnd.2]
      constructor
      · rintro (e | ⟨h1, h2⟩)
        · subst e; exact ⟨Or.inl rfl, ha⟩
        · exact ⟨Or.inr h1, h2⟩
      · rintro ⟨e | h1, h2⟩
        · exact Or.inl e
        · exact Or.inr ⟨h1, h2⟩

end Hw.Dist

namespace Hw.Dist

/-! ## kind validation -/

theorem kindOk_table : ∀ k, k < 64 → (kindOk k = true ↔
      (¬(k.testBit 0 = true ∧ k.testBit 1 = true) ∧
       ¬(k.testBit 2 = true ∧ k.testBit 3 = true) ∧ ¬(k.testBit 2 = true ∧ k.testBit 5 = true) ∧
       ¬(k.testBit 3 = true ∧ k.testBit 5 = true))) := by decide

theorem kindOk_iff (kind : Nat) :
    kindOk kind = true ↔
      (kind < 64 ∧ ¬(kind.testBit 0 = true ∧ kind.testBit 1 = true) ∧
       ¬(kind.testBit 2 = true ∧ kind.testBit 3 = true) ∧ ¬(kind.testBit 2 = true ∧ kind.testBit 5 = true) ∧
       ¬(kind.testBit 3 = true ∧ kind.testBit 5 = true)) := by
  by_cases h : kind < 64
  · rw [kindOk_table kind h]; simp [h]
  · have h1 : kind &&& KIND_ALL ≤ 63 := Nat.and_le_right
    have h2 : (kind &&& KIND_ALL == kind) = false := by
      simp only [beq_eq_false_iff_ne, ne_eq]; omega
    constructor
    · intro hk; simp [kindOk, h2] at hk
    · intro hk; exact absurd hk.1 h

/-! ## add → get -/

theorem getCore_append_valid (st : State) (h2 : Dist) (hv : h2.valid = true)
    (fname : Option String) (fty : Int) (fkind cap : Nat) :
    (getCore { st with dists := st.dists ++ [h2] } fname fty fkind cap).2.1 =
      (getCore st fname fty fkind cap).2.1 + (if matchesFilter fname fty fkind h2 = true then 1 else 0) ∧
    (getCore { st with dists := st.dists ++ [h2] } fname fty fkind cap).2.2 =
      ((((refreshList st.topo st.dists).filter (matchesFilter fname fty fkind)).map Dist.pub) ++
        (if matchesFilter fname fty fkind h2 = true then [h2.pub] else [])).take cap := by
  simp only [getCore, State.refresh]
  rw [refreshList_append_valid _ _ _ hv, List.filter_append]
  by_cases hm : matchesFilter fname fty fkind h2 = true
  · simp [hm, List.map_take]
  · simp [hm, List.map_take]

def freshHandle (id : Nat) (name : Option String) (kind : Nat) : Dist :=
  { id := id, name := name, kind := kind, uniq := TY_NONE, hetero := false, n := 0,
    idx := [], tys := [], objs := [], valid := false, vals := [] }

theorem addCreate_ok (st : State) (name : Option String) (kind : Nat) (hk : kindOk kind = true) :
    addCreate st name kind 0 = .ok ({ st with nextId := st.nextId + 1 }, freshHandle st.nextId name kind) := by
  simp [addCreate, hk, freshHandle]

theorem add_then_get (st : State) (name : Option String) (kind : Nat) (os : List Obj) (vals : List Nat)
    (hk : kindOk kind = true) (hn : 2 ≤ os.length) :
    ∃ st1 h1 h2 st2,
      addCreate st name kind 0 = .ok (st1, h1) ∧
      addValues h1 os.length (os.map some) vals 0 = .ok h2 ∧
      addCommit st1 h2 0 = .ok st2 ∧
      h2.name = name ∧ h2.id = st.nextId ∧ h2.n = os.length ∧ h2.objs = os.map some ∧ h2.vals = vals ∧
      h2.kind = (if uniqueType (os.map some) == TY_NONE then kind ||| KIND_HETEROGENEOUS else kind) ∧
      st2.dists = st.dists ++ [h2] ∧ st2.topo = st.topo ∧
      ∀ (fname : Option String) (fty : Int) (fkind cap : Nat),
        (getCore st2 fname fty fkind cap).2.1 =
          (getCore st fname fty fkind cap).2.1 + (if matchesFilter fname fty fkind h2 = true then 1 else 0) ∧
        (getCore st2 fname fty fkind cap).2.2 =
          ((((refreshList st.topo st.dists).filter (matchesFilter fname fty fkind)).map Dist.pub) ++
            (if matchesFilter fname fty fkind h2 = true then [h2.pub] else [])).take cap := by
  have hc := addCreate_ok st name kind hk
  have hv := addValues_ok (freshHandle st.nextId name kind) os.length os vals hn rfl rfl
  refine ⟨_, _, _, _, hc, hv, addCommit_ok _ _ 0 (by decide) (by show os.length ≠ 0; omega),
    rfl, rfl, rfl, rfl, rfl, rfl, rfl, rfl, ?_⟩
  intro fname fty fkind cap
  exact getCore_append_valid st _ rfl fname fty fkind cap

theorem uniqueType_none_iff (o : Obj) (rest : List Obj) (hty : ∀ x, x ∈ o :: rest → x.ty ≠ TY_NONE) :
    (uniqueType ((o :: rest).map some) == TY_NONE) = true ↔ ∃ x, x ∈ rest ∧ x.ty ≠ o.ty := by
  have ho := hty o List.mem_cons_self
  have hall_iff : (rest.map some).all (fun x => match x with | some y => y.ty == o.ty | none => true) = true ↔
      ∀ x, x ∈ rest → x.ty = o.ty := by
    simp [List.all_eq_true]
  show ((if (rest.map some).all (fun x => match x with | some y => y.ty == o.ty | none => true) = true
      then o.ty else TY_NONE) == TY_NONE) = true ↔ _
  by_cases hall : ∀ x, x ∈ rest → x.ty = o.ty
  · rw [if_pos (hall_iff.mpr hall)]
    constructor
    · intro h; exact absurd (by simpa using h) ho
    · rintro ⟨x, hx, hne⟩; exact absurd (hall x hx) hne
  · rw [if_neg (fun h => hall (hall_iff.mp h))]
    constructor
    · intro _
      apply Classical.byContradiction
      intro hne
      apply hall
      intro x hx
      apply Classical.byContradiction
      intro hx2
      exact hne ⟨x, hx, hx2⟩
    · intro _; simp

/-! ## release_remove, ids -/

theorem releaseRemove_spec (st : State) (p : Pub) (hnd : (st.dists.map Dist.id).Nodup) :
    (∀ st', releaseRemove st p = .ok st' →
        (∀ d, d ∈ st'.dists ↔ (d ∈ st.dists ∧ d.id ≠ p.id)) ∧ st'.dists.Sublist st.dists) ∧
    ((∃ e, releaseRemove st p = .error e) ↔ ∀ d, d ∈ st.dists → d.id ≠ p.id) := by
  unfold releaseRemove
  cases hf : fromPublic st.dists p.id with
  | none =>
    refine ⟨fun st' h => (by cases h), ?_⟩
    simp only [Except.error.injEq, exists_eq', true_iff]
    exact fromPublic_none _ _ hf
  | some d0 =>
    obtain ⟨hd0, hid0⟩ := fromPublic_some _ _ _ hf
    refine ⟨?_, ?_⟩
    · intro st' h
      cases h
      exact ⟨fun d => eraseP_id_mem st.dists p.id hnd d, List.eraseP_sublist⟩
    · simp only [reduceCtorEq, exists_false, false_iff]
      intro h; exact h d0 hd0 hid0

theorem ids_distinct_commit (st : State) (name : Option String) (kind : Nat) (h : Dist) (st1 st2 : State)
    (hinv : (st.dists.map Dist.id).Nodup ∧ ∀ d, d ∈ st.dists → d.id < st.nextId)
    (hc : addCreate st name kind 0 = .ok (st1, h)) (h' : Dist) (hid : h'.id = h.id)
    (hm : addCommit st1 h' 0 = .ok st2) :
    (st2.dists.map Dist.id).Nodup ∧ ∀ d, d ∈ st2.dists → d.id < st2.nextId := by
  unfold addCreate at hc
  split at hc
  · cases hc
  · simp only [ne_eq, not_true_eq_false, if_false, Except.ok.injEq, Prod.mk.injEq] at hc
    obtain ⟨rfl, rfl⟩ := hc
    unfold addCommit at hm
    split at hm
    · cases hm
    · split at hm
      · cases hm
      · cases hm
        simp only [List.map_append, List.map_cons, List.map_nil]
        constructor
        · rw [List.nodup_append]
          refine ⟨hinv.1, by simp, ?_⟩
          intro a ha b hb
          simp only [List.mem_singleton] at hb
          obtain ⟨d, hd, rfl⟩ := List.mem_map.mp ha
          have := hinv.2 d hd
          rw [hb, hid]; show d.id ≠ st.nextId; omega
        · intro d hd
          rcases List.mem_append.mp hd with h1 | h1
          · have := hinv.2 d h1; show d.id < st.nextId + 1; omega
          · simp only [List.mem_singleton] at h1
            subst h1; rw [hid]; show st.nextId < st.nextId + 1; omega

/-! ## transforms -/

theorem trRemoveNull_keeps (p p' : Pub) (hlen : p.objs.length = p.n) (h : trRemoveNull p = (none, p')) :
    p'.n = rank (liveOf p.objs) p.n ∧ 2 ≤ p'.n ∧
    (∀ i, i < p.n → liveOf p.objs i = true → p'.objs.getD (rank (liveOf p.objs) i) none = p.objs.getD i none) ∧
    (∀ i j, i < p.n → j < p.n → liveOf p.objs i = true → liveOf p.objs j = true →
      p'.vals.getD (rank (liveOf p.objs) i * p'.n + rank (liveOf p.objs) j) 0 = p.vals.getD (i*p.n + j) 0) := by
  have hr := rank_eq_sub_countNone p.objs p.n hlen
  unfold trRemoveNull at h
  simp only [hr] at h
  by_cases h2 : rank (liveOf p.objs) p.n < 2
  · simp [h2] at h
  · simp only [h2, if_false] at h
    by_cases he : (rank (liveOf p.objs) p.n == p.n) = true
    · simp only [he, if_true, Prod.mk.injEq, true_and] at h
      subst h
      have hk : rank (liveOf p.objs) p.n = p.n := by simpa using he
      have hc0 : countNone p.objs = 0 := by have := countNone_le p.objs; omega
      have hall : ∀ i, i < p.n → liveOf p.objs i = true := fun i hi =>
        all_live_of_countNone_zero _ hc0 i (by omega)
      have hrk : ∀ i, i ≤ p.n → rank (liveOf p.objs) i = i := fun i hi =>
        rank_all_live _ i (fun q hq => hall q (by omega))
      refine ⟨hk.symm, by omega, ?_, ?_⟩
      · intro i hi _; rw [hrk i (by omega)]
      · intro i j hi hj _ _; rw [hrk i (by omega), hrk j (by omega)]
    · simp only [he, Bool.false_eq_true, if_false, Prod.mk.injEq, true_and] at h
      subst h
      refine ⟨rfl, by show 2 ≤ rank (liveOf p.objs) p.n; omega, ?_, ?_⟩
      · intro i hi li
        exact (compactLists_objs p.n p.objs [] [] p.vals i hi li).1
      · intro i j hi hj li lj
        exact compactLists_vals p.n p.objs [] [] p.vals i j hi hj li lj

theorem trLinks_divides (p p' : Pub) (h : trLinks p = (none, p')) :
    (minPos (linksBase p) = 0 ∧ p'.vals = linksBase p) ∨
    (0 < minPos (linksBase p) ∧ p'.vals.length = (linksBase p).length ∧
      ∀ q, q < (linksBase p).length → p'.vals.getD q 0 * minPos (linksBase p) = (linksBase p).getD q 0) := by
  unfold trLinks at h
  split at h
  · simp at h
  · simp only at h
    split at h
    · rename_i hd
      simp only [Prod.mk.injEq, true_and] at h
      subst h
      exact Or.inl ⟨by simpa using hd, rfl⟩
    · rename_i hd
      split at h
      · simp at h
      · rename_i hany
        simp only [Prod.mk.injEq, true_and] at h
        subst h
        have hpos : 0 < minPos (linksBase p) := by
          have : ¬ minPos (linksBase p) = 0 := by simpa using hd
          omega
        have hall : ∀ v, v ∈ linksBase p → v % minPos (linksBase p) = 0 := by
          simpa using hany
        refine Or.inr ⟨hpos, by simp, ?_⟩
        intro q hq
        have hmem : (linksBase p)[q] ∈ linksBase p := List.getElem_mem hq
        have e1 : ((linksBase p).map (fun v => v / minPos (linksBase p))).getD q 0
            = (linksBase p)[q] / minPos (linksBase p) := by simp [List.getD, hq]
        have e2 : (linksBase p).getD q 0 = (linksBase p)[q] := by simp [List.getD, hq]
        show ((linksBase p).map (fun v => v / minPos (linksBase p))).getD q 0 * _ = _
        rw [e1, e2]
        exact Nat.div_mul_cancel (Nat.dvd_of_mod_eq_zero (hall _ hmem))

end Hw.Dist

namespace Hw.Dist

/-! ## transitive closure -/

theorem cell_inj {n i j i' j' : Nat} (hj : j < n) (hj' : j' < n) (h : i*n+j = i'*n+j') : i = i' ∧ j = j' := by
  have hn : 0 < n := by omega
  have h1 : (i*n+j) / n = i := by
    rw [Nat.mul_comm, Nat.mul_add_div hn, Nat.div_eq_of_lt hj, Nat.add_zero]
  have h2 : (i'*n+j') / n = i' := by
    rw [Nat.mul_comm, Nat.mul_add_div hn, Nat.div_eq_of_lt hj', Nat.add_zero]
  have h3 : i = i' := by rw [← h1, ← h2, h]
  subst h3
  exact ⟨rfl, by omega⟩

theorem sumSw_congr (sw : Nat → Bool) (cell : Nat → Nat) (a b : FArr Nat) :
    ∀ (fuel k acc : Nat), (∀ k', k ≤ k' → k' < k + fuel → sw k' = true → a.get (cell k') = b.get (cell k')) →
      sumSw sw cell a fuel k acc = sumSw sw cell b fuel k acc := by
  intro fuel
  induction fuel with
  | zero => intro k acc _; rfl
  | succ f ih =>
    intro k acc h
    unfold sumSw
    by_cases hs : sw k = true
    · simp only [hs, if_true]
      rw [h k (Nat.le_refl _) (by omega) hs]
      exact ih (k+1) _ (fun k' h1 h2 h3 => h k' (by omega) (by omega) h3)
    · simp only [hs]
      exact ih (k+1) _ (fun k' h1 h2 h3 => h k' (by omega) (by omega) h3)

/-- bandwidth from the switch ports to `j` (column sum over port rows) -/
def colSum (n : Nat) (sw : Nat → Bool) (a : FArr Nat) (j : Nat) : Nat := sumSw sw (fun k => k*n+j) a n 0 0
/-- bandwidth from `i` to the switch ports (row sum over port columns) -/
def rowSum (n : Nat) (sw : Nat → Bool) (a : FArr Nat) (i : Nat) : Nat := sumSw sw (fun k => i*n+k) a n 0 0

theorem closureJ_spec (n : Nat) (sw : Nat → Bool) (i bwI : Nat) :
    ∀ (fuel j : Nat) (a : FArr Nat), j + fuel = n →
      (∀ p, (∀ j', j ≤ j' → j' < n → j' ≠ i → sw j' = false → p ≠ i*n+j') →
        (closureJ n sw i bwI fuel j a).get p = a.get p) ∧
      (∀ j', j ≤ j' → j' < n → j' ≠ i → sw j' = false →
        (closureJ n sw i bwI fuel j a).get (i*n+j') =
          add64 (a.get (i*n+j')) (if bwI > colSum n sw a j' then colSum n sw a j' else bwI)) := by
  intro fuel
  induction fuel with
  | zero =>
    intro j a hj
    exact ⟨fun p _ => rfl, fun j' h1 h2 _ _ => by omega⟩
  | succ f ih =>
    intro j a hj
    have hjn : j < n := by omega
    unfold closureJ
    by_cases hskip : (i == j || sw j) = true
    · simp only [hskip, if_true]
      obtain ⟨ih1, ih2⟩ := ih (j+1) a (by omega)
      have hj' : i = j ∨ sw j = true := by simpa using hskip
      constructor
      · intro p hp
        exact ih1 p (fun j' h1 h2 h3 h4 => hp j' (by omega) h2 h3 h4)
      · intro j' h1 h2 h3 h4
        rcases Nat.eq_or_lt_of_le h1 with e | e
        · subst e
          rcases hj' with e1 | e1
          · exact absurd e1.symm h3
          · rw [h4] at e1; cases e1
        · exact ih2 j' (by omega) h2 h3 h4
    · simp only [hskip, Bool.false_eq_true, if_false]
      have hj' : i ≠ j ∧ sw j = false := by
        simp only [Bool.or_eq_true, beq_iff_eq, not_or] at hskip
        exact ⟨hskip.1, by cases h : sw j <;> simp_all⟩
      obtain ⟨ih1, ih2⟩ := ih (j+1)
        (a.upd (i*n+j) (add64 (a.get (i*n+j))
          (if bwI > sumSw sw (fun k => k*n+j) a n 0 0 then sumSw sw (fun k => k*n+j) a n 0 0 else bwI))) (by omega)
      constructor
      · intro p hp
        rw [ih1 p (fun j' h1 h2 h3 h4 => hp j' (by omega) h2 h3 h4)]
        simp only [FArr.get_upd]
        rw [if_neg (hp j (Nat.le_refl _) hjn (fun e => hj'.1 e.symm) hj'.2)]
      · intro j' h1 h2 h3 h4
        rcases Nat.eq_or_lt_of_le h1 with e | e
        · subst e
          rw [ih1 _ (fun j'' h1' _ _ _ => by omega)]
          simp only [FArr.get_upd, if_true]
          rfl
        · rw [ih2 j' (by omega) h2 h3 h4]
          simp only [FArr.get_upd]
          rw [if_neg (by omega)]
          have hc : colSum n sw (a.upd (i*n+j) (add64 (a.get (i*n+j))
              (if bwI > sumSw sw (fun k => k*n+j) a n 0 0 then sumSw sw (fun k => k*n+j) a n 0 0 else bwI))) j'
              = colSum n sw a j' := by
            unfold colSum
            apply sumSw_congr
            intro k' _ hk' hsk
            simp only [FArr.get_upd]
            rw [if_neg]
            intro heq
            have := (cell_inj h2 hjn heq).2
            omega
          rw [hc]

theorem closureI_spec (n : Nat) (sw : Nat → Bool) :
    ∀ (fuel i : Nat) (a : FArr Nat), i + fuel = n →
      (∀ p, (∀ i' j', i ≤ i' → i' < n → sw i' = false → j' < n → j' ≠ i' → sw j' = false → p ≠ i'*n+j') →
        (closureI n sw fuel i a).get p = a.get p) ∧
      (∀ i' j', i ≤ i' → i' < n → sw i' = false → j' < n → j' ≠ i' → sw j' = false →
        (closureI n sw fuel i a).get (i'*n+j') =
          add64 (a.get (i'*n+j')) (if rowSum n sw a i' > colSum n sw a j' then colSum n sw a j' else rowSum n sw a i')) := by
  intro fuel
  induction fuel with
  | zero =>
    intro i a hi
    exact ⟨fun p _ => rfl, fun i' j' h1 h2 _ _ _ _ => by omega⟩
  | succ f ih =>
    intro i a hi
    have hin : i < n := by omega
    unfold closureI
    by_cases hs : sw i = true
    · simp only [hs, if_true]
      obtain ⟨ih1, ih2⟩ := ih (i+1) a (by omega)
      constructor
      · intro p hp
        exact ih1 p (fun i' j' h1 h2 h3 h4 h5 h6 => hp i' j' (by omega) h2 h3 h4 h5 h6)
      · intro i' j' h1 h2 h3 h4 h5 h6
        rcases Nat.eq_or_lt_of_le h1 with e | e
        · subst e; rw [h3] at hs; cases hs
        · exact ih2 i' j' (by omega) h2 h3 h4 h5 h6
    · have hs' : sw i = false := by cases h : sw i <;> simp_all
      simp only [hs', Bool.false_eq_true, if_false]
      obtain ⟨r1, r2⟩ := closureJ_spec n sw i (sumSw sw (fun k => i*n+k) a n 0 0) n 0 a (by omega)
      obtain ⟨ih1, ih2⟩ := ih (i+1) (closureJ n sw i (sumSw sw (fun k => i*n+k) a n 0 0) n 0 a) (by omega)
      -- cells outside row i are not touched by the row loop
      have hrow : ∀ i' j', i' ≠ i → j' < n →
          (closureJ n sw i (sumSw sw (fun k => i*n+k) a n 0 0) n 0 a).get (i'*n+j') = a.get (i'*n+j') := by
        intro i' j' hne hj'
        apply r1
        intro j'' _ hj'' _ _ heq
        exact hne (cell_inj hj' hj'' heq).1
      -- cells in a switch column are not touched either
      have hcol : ∀ i' k, k < n → sw k = true →
          (closureJ n sw i (sumSw sw (fun k => i*n+k) a n 0 0) n 0 a).get (i'*n+k) = a.get (i'*n+k) := by
        intro i' k hk hsk
        apply r1
        intro j'' _ hj'' _ hsj heq
        have := (cell_inj hk hj'' heq).2
        subst this; rw [hsk] at hsj; cases hsj
      constructor
      · intro p hp
        rw [ih1 p (fun i' j' h1 h2 h3 h4 h5 h6 => hp i' j' (by omega) h2 h3 h4 h5 h6)]
        exact r1 p (fun j' _ h2 h3 h4 => hp i j' (Nat.le_refl _) hin hs' h2 h3 h4)
      · intro i' j' h1 h2 h3 h4 h5 h6
        rcases Nat.eq_or_lt_of_le h1 with e | e
        · subst e
          rw [ih1 _ (fun i'' j'' h1' _ _ hj'' _ _ heq => by
            have := (cell_inj h4 hj'' heq).1
            omega)]
          exact r2 j' (Nat.zero_le _) h4 h5 h6
        · rw [ih2 i' j' (by omega) h2 h3 h4 h5 h6]
          rw [hrow i' j' (by omega) h4]
          have hr : rowSum n sw (closureJ n sw i (sumSw sw (fun k => i*n+k) a n 0 0) n 0 a) i' = rowSum n sw a i' := by
            unfold rowSum
            apply sumSw_congr
            intro k' _ hk' hsk
            exact hcol i' k' (by omega) hsk
          have hc : colSum n sw (closureJ n sw i (sumSw sw (fun k => i*n+k) a n 0 0) n 0 a) j' = colSum n sw a j' := by
            unfold colSum
            apply sumSw_congr
            intro k' _ hk' hsk
            apply hrow k' j' _ h4
            intro e2; subst e2; rw [hs'] at hsk; cases hsk
          rw [hr, hc]

end Hw.Dist

namespace Hw.Dist

theorem mergeK_frame (n i j : Nat) :
    ∀ (fuel k : Nat) (a : FArr Nat) (p : Nat),
      (∀ k', k ≤ k' → k' < k + fuel → p ≠ k'*n+i ∧ p ≠ k'*n+j ∧ p ≠ i*n+k' ∧ p ≠ j*n+k') →
      (mergeK n i j fuel k a).get p = a.get p := by
  intro fuel
  induction fuel with
  | zero => intro k a p _; rfl
  | succ f ih =>
    intro k a p hp
    unfold mergeK
    split
    · exact ih (k+1) a p (fun k' h1 h2 => hp k' (by omega) (by omega))
    · obtain ⟨c1, c2, c3, c4⟩ := hp k (Nat.le_refl _) (by omega)
      rw [ih (k+1) _ p (fun k' h1 h2 => hp k' (by omega) (by omega))]
      simp only [FArr.get_upd]
      rw [if_neg c4, if_neg c3, if_neg c2, if_neg c1]

theorem rank_congr (l l' : Nat → Bool) : ∀ x, (∀ q, q < x → l q = l' q) → rank l x = rank l' x
  | 0, _ => rfl
  | x+1, h => by
    rw [rank_succ, rank_succ, rank_congr l l' x (fun q hq => h q (by omega)), h x (Nat.lt_succ_self x)]

theorem firstSw_lt (objs : List (Option Obj)) (i : Nat) (h : firstSw objs = some i) : i < objs.length := by
  unfold firstSw at h
  simp only at h
  split at h
  · cases h; assumption
  · cases h

end Hw.Dist

namespace Hw.Dist

/-- the switch test used by the closure on a caller's structure -/
def swOf (p : Pub) : Nat → Bool := fun i => isSw ((toArr p.objs none).get i)

theorem cell_lt {n i j : Nat} (hi : i < n) (hj : j < n) : i*n + j < n*n := by
  have : (i+1) * n ≤ n * n := Nat.mul_le_mul_right _ hi
  rw [Nat.add_mul, Nat.one_mul] at this; omega

/-- TRANSITIVE_CLOSURE: always succeeds, objects and kind untouched; cells with a port endpoint and the
diagonal are unchanged; every cell between two distinct non-port objects receives
`min(bandwidth i→ports, bandwidth ports→j)` computed on the *original* matrix (64-bit wrap-around sums) -/
theorem trClosure_spec (p : Pub) :
    (trClosure p).1 = none ∧ (trClosure p).2.objs = p.objs ∧ (trClosure p).2.n = p.n ∧ (trClosure p).2.kind = p.kind ∧
    (∀ i j, i < p.n → j < p.n → (swOf p i = true ∨ swOf p j = true ∨ i = j) →
      (trClosure p).2.vals.getD (i*p.n+j) 0 = p.vals.getD (i*p.n+j) 0) ∧
    (∀ i j, i < p.n → j < p.n → swOf p i = false → swOf p j = false → i ≠ j →
      (trClosure p).2.vals.getD (i*p.n+j) 0 =
        add64 (p.vals.getD (i*p.n+j) 0)
          (if rowSum p.n (swOf p) (toArr p.vals 0) i > colSum p.n (swOf p) (toArr p.vals 0) j
           then colSum p.n (swOf p) (toArr p.vals 0) j else rowSum p.n (swOf p) (toArr p.vals 0) i)) := by
  obtain ⟨c1, c2⟩ := closureI_spec p.n (swOf p) p.n 0 (toArr p.vals 0) (by omega)
  refine ⟨rfl, rfl, rfl, rfl, ?_, ?_⟩
  · intro i j hi hj hc
    show (ofArr (closureI p.n (swOf p) p.n 0 (toArr p.vals 0)) (p.n * p.n)).getD _ _ = _
    rw [ofArr_getD _ _ _ _ (cell_lt hi hj)]
    apply c1
    intro i' j' _ _ hs1 hj' hne hs2 heq
    obtain ⟨e1, e2⟩ := cell_inj hj hj' heq
    subst e1; subst e2
    rcases hc with h | h | h
    · rw [hs1] at h; cases h
    · rw [hs2] at h; cases h
    · exact hne h.symm
  · intro i j hi hj hs1 hs2 hne
    show (ofArr (closureI p.n (swOf p) p.n 0 (toArr p.vals 0)) (p.n * p.n)).getD _ _ = _
    rw [ofArr_getD _ _ _ _ (cell_lt hi hj)]
    exact c2 i j (Nat.zero_le _) hi hs1 hj (fun e => hne e.symm) hs2

end Hw.Dist

namespace Hw.Dist

/-! ## XML transfer, id invariants -/

theorem renumber_length : ∀ (l : List Dist) (i : Nat), (renumber l i).length = l.length
  | [], _ => rfl
  | _ :: ds, i => by simp [renumber, renumber_length ds (i+1)]

theorem renumber_getElem? : ∀ (l : List Dist) (i k : Nat) (d : Dist), l[k]? = some d →
    (renumber l i)[k]? = some { d with id := i + k, valid := false, objs := List.replicate d.n none }
  | [], _, _, _, h => by simp at h
  | a :: ds, i, 0, d, h => by
    simp only [List.getElem?_cons_zero, Option.some.injEq] at h
    subst h; simp [renumber]
  | a :: ds, i, k+1, d, h => by
    simp only [List.getElem?_cons_succ] at h
    have := renumber_getElem? ds (i+1) k d h
    simp only [renumber, List.getElem?_cons_succ, this]
    have e : i + 1 + k = i + (k + 1) := by omega
    rw [e]

theorem renumber_mem (l : List Dist) (i : Nat) (d' : Dist) (h : d' ∈ renumber l i) :
    ∃ d k, d ∈ l ∧ k < l.length ∧ d' = { d with id := i + k, valid := false, objs := List.replicate d.n none } := by
  obtain ⟨k, hk, rfl⟩ := List.getElem_of_mem h
  rw [renumber_length] at hk
  have h1 : l[k]? = some l[k] := List.getElem?_eq_getElem hk
  have h2 := renumber_getElem? l i k l[k] h1
  rw [List.getElem?_eq_getElem (by rw [renumber_length]; exact hk)] at h2
  exact ⟨l[k], k, List.getElem_mem hk, hk, by simpa using h2⟩

theorem renumber_ids : ∀ (l : List Dist) (i : Nat), (renumber l i).map Dist.id = List.range' i l.length
  | [], _ => rfl
  | _ :: ds, i => by simp [renumber, renumber_ids ds (i+1), List.range'_succ]

/-- XML export + import: content -/
theorem xmlRoundTrip_spec (st : State) (T' : Topo) :
    (xmlRoundTrip st T').1 = st.refresh ∧ (xmlRoundTrip st T').2.topo = T' ∧
    (xmlRoundTrip st T').2.dists = refreshList T' (renumber ((st.refresh.dists.filter (fun d => !d.hetero) ++
        st.refresh.dists.filter (fun d => d.hetero)).filter (fun d => 2 ≤ d.n)) 0) ∧
    (xmlRoundTrip st T').2.nextId = ((st.refresh.dists.filter (fun d => !d.hetero) ++
        st.refresh.dists.filter (fun d => d.hetero)).filter (fun d => 2 ≤ d.n)).length :=
  ⟨rfl, rfl, rfl, by simp [xmlRoundTrip, renumber_length]⟩

/-- ids stay pairwise distinct when structures are dropped or refreshed -/
theorem refreshList_ids_sublist (T : Topo) : ∀ (ds : List Dist),
    ((refreshList T ds).map Dist.id).Sublist (ds.map Dist.id)
  | [] => by simp [refreshList]
  | d :: ds => by
    have ih := refreshList_ids_sublist T ds
    unfold refreshList at *
    rw [List.filterMap_cons]
    cases hr : refreshOne T d with
    | none => simp only [List.map_cons]; exact List.Sublist.cons _ ih
    | some d' =>
      have hid : d'.id = d.id := by
        by_cases hv : d.valid = true
        · rw [refreshOne_valid T d hv] at hr; cases hr; rfl
        · have hv' : d.valid = false := by cases hx : d.valid <;> simp_all
          exact (refreshOne_some_spec T d d' hv' hr).1
      simp only [List.map_cons, hid]
      exact List.Sublist.cons_cons _ ih

end Hw.Dist

namespace Hw.Dist

theorem zeroDiag_spec (n : Nat) : ∀ (fuel i : Nat) (a : FArr Nat) (p : Nat), i + fuel = n →
    ((∃ i', i ≤ i' ∧ i' < n ∧ p = i'*n+i') → (zeroDiag n fuel i a).get p = 0) ∧
    ((¬∃ i', i ≤ i' ∧ i' < n ∧ p = i'*n+i') → (zeroDiag n fuel i a).get p = a.get p) := by
  intro fuel
  induction fuel with
  | zero =>
    intro i a p hi
    exact ⟨fun ⟨i', h1, h2, _⟩ => by omega, fun _ => rfl⟩
  | succ f ih =>
    intro i a p hi
    unfold zeroDiag
    obtain ⟨ih1, ih2⟩ := ih (i+1) (a.upd (i*n+i) 0) p (by omega)
    constructor
    · rintro ⟨i', h1, h2, h3⟩
      rcases Nat.eq_or_lt_of_le h1 with e | e
      · subst e
        by_cases hex : ∃ i', i + 1 ≤ i' ∧ i' < n ∧ p = i'*n+i'
        · exact ih1 hex
        · rw [ih2 hex]; simp [h3]
      · exact ih1 ⟨i', e, h2, h3⟩
    · intro hne
      have hne' : ¬∃ i', i + 1 ≤ i' ∧ i' < n ∧ p = i'*n+i' :=
        fun ⟨i', h1, h2, h3⟩ => hne ⟨i', by omega, h2, h3⟩
      rw [ih2 hne']
      have : p ≠ i*n+i := fun h => hne ⟨i, Nat.le_refl _, by omega, h⟩
      simp [this]

/-- the fold of `minPos` started from an accumulator `d` -/
def minPosFrom (vs : List Nat) (d : Nat) : Nat :=
  vs.foldl (fun d v => if v ≠ 0 && (d == 0 || v < d) then v else d) d

theorem minPosFrom_cons (v : Nat) (vs : List Nat) (d : Nat) :
    minPosFrom (v :: vs) d = minPosFrom vs (if v ≠ 0 && (d == 0 || v < d) then v else d) := rfl

theorem minPosFrom_spec : ∀ (vs : List Nat) (d : Nat),
    (minPosFrom vs d = d ∨ minPosFrom vs d ∈ vs) ∧ (d ≠ 0 → minPosFrom vs d ≠ 0 ∧ minPosFrom vs d ≤ d) ∧
    (∀ v, v ∈ vs → v ≠ 0 → minPosFrom vs d ≠ 0 ∧ minPosFrom vs d ≤ v)
  | [], d => by simp [minPosFrom]
  | v :: vs, d => by
    rw [minPosFrom_cons]
    obtain ⟨h1, h2, h3⟩ := minPosFrom_spec vs (if v ≠ 0 && (d == 0 || v < d) then v else d)
    by_cases hc : (v ≠ 0 && (d == 0 || v < d)) = true
    · have hc' : v ≠ 0 ∧ (d = 0 ∨ v < d) := by simpa using hc
      simp only [hc, if_true] at h1 h2 h3 ⊢
      refine ⟨?_, ?_, ?_⟩
      · rcases h1 with h | h
        · right; rw [h]; exact List.mem_cons_self
        · right; exact List.mem_cons_of_mem _ h
      · intro hd
        have := h2 hc'.1
        exact ⟨this.1, by omega⟩
      · intro w hw hw0
        rcases List.mem_cons.mp hw with e | e
        · subst e; exact h2 hc'.1
        · exact h3 w e hw0
    · have hc' : v = 0 ∨ (d ≠ 0 ∧ d ≤ v) := by
        by_cases hv : v = 0
        · exact Or.inl hv
        · right
          by_cases hd : d = 0
          · exact absurd (by simp [hv, hd]) hc
          · refine ⟨hd, ?_⟩
            apply Classical.byContradiction
            intro hlt
            exact hc (by simp [hv]; right; omega)
      simp only [hc, Bool.false_eq_true, if_false] at h1 h2 h3 ⊢
      refine ⟨?_, ?_, ?_⟩
      · rcases h1 with h | h
        · left; exact h
        · right; exact List.mem_cons_of_mem _ h
      · exact h2
      · intro w hw hw0
        rcases List.mem_cons.mp hw with e | e
        · subst e
          rcases hc' with h | h
          · exact absurd h hw0
          · have := h2 h.1; exact ⟨this.1, by omega⟩
        · exact h3 w e hw0

/-- `minPos` is 0 iff no value is positive, else it is a positive member below every positive member -/
theorem minPos_spec (vs : List Nat) :
    (minPos vs = 0 ↔ ∀ v, v ∈ vs → v = 0) ∧
    (minPos vs ≠ 0 → minPos vs ∈ vs ∧ ∀ v, v ∈ vs → v ≠ 0 → minPos vs ≤ v) := by
  have h := minPosFrom_spec vs 0
  have e : minPos vs = minPosFrom vs 0 := rfl
  rw [e]
  obtain ⟨h1, _, h3⟩ := h
  constructor
  · constructor
    · intro h0 v hv
      apply Classical.byContradiction
      intro hv0
      exact (h3 v hv hv0).1 h0
    · intro hall
      rcases h1 with h | h
      · exact h
      · exact hall _ h
  · intro hne
    rcases h1 with h | h
    · exact absurd h hne
    · exact ⟨h, fun v hv hv0 => (h3 v hv hv0).2⟩

/-- the matrix LINKS works on: diagonal zeroed, every other cell as given -/
theorem linksBase_spec (p : Pub) (i j : Nat) (hi : i < p.n) (hj : j < p.n) :
    (linksBase p).getD (i*p.n+j) 0 = if i = j then 0 else p.vals.getD (i*p.n+j) 0 := by
  unfold linksBase
  rw [ofArr_getD _ _ _ _ (cell_lt hi hj)]
  obtain ⟨z1, z2⟩ := zeroDiag_spec p.n p.n 0 (toArr p.vals 0) (i*p.n+j) (by omega)
  by_cases hij : i = j
  · rw [if_pos hij]
    exact z1 ⟨i, Nat.zero_le _, hi, by rw [hij]⟩
  · rw [if_neg hij, z2 (fun ⟨i', _, h2, h3⟩ => by
      have := cell_inj hj h2 h3
      omega)]
    rfl

end Hw.Dist

namespace Hw.Dist

theorem matchesFilter_iff (name : Option String) (ty : Int) (kind : Nat) (d : Dist) :
    matchesFilter name ty kind d = true ↔
      ((name = none ∨ (d.name ≠ none ∧ name = d.name)) ∧ (ty = TY_NONE ∨ ty = d.uniq) ∧
       (kind &&& KIND_FROM_ALL = 0 ∨ (kind &&& KIND_FROM_ALL) &&& d.kind ≠ 0) ∧
       (kind &&& KIND_VALUE_ALL = 0 ∨ (kind &&& KIND_VALUE_ALL) &&& d.kind ≠ 0)) := by
  unfold matchesFilter
  simp only [Bool.and_eq_true, Bool.not_eq_true', Bool.and_eq_false_iff, Bool.or_eq_false_iff, ne_eq,
    Option.isSome_eq_false_iff, Option.isNone_iff_eq_none, bne_eq_false_iff_eq, beq_eq_false_iff_ne,
    Option.isNone_eq_false_iff, Option.isSome_iff_ne_none, and_assoc]

end Hw.Dist

namespace Hw.Dist

theorem cell_ne {n x y x' y' : Nat} (hy : y < n) (hy' : y' < n) (h : x ≠ x' ∨ y ≠ y') : x*n+y ≠ x'*n+y' := by
  intro e
  obtain ⟨e1, e2⟩ := cell_inj hy hy' e
  rcases h with h | h
  · exact h e1
  · exact h e2

theorem sumSw_congr2 (sw sw' : Nat → Bool) (cell : Nat → Nat) (a b : FArr Nat) :
    ∀ (fuel k acc : Nat),
      (∀ k', k ≤ k' → k' < k + fuel → sw k' = sw' k' ∧ (sw k' = true → a.get (cell k') = b.get (cell k'))) →
      sumSw sw cell a fuel k acc = sumSw sw' cell b fuel k acc := by
  intro fuel
  induction fuel with
  | zero => intro k acc _; rfl
  | succ f ih =>
    intro k acc h
    unfold sumSw
    obtain ⟨h1, h2⟩ := h k (Nat.le_refl _) (by omega)
    rw [← h1]
    by_cases hs : sw k = true
    · simp only [hs, if_true]
      rw [h2 hs]
      exact ih (k+1) _ (fun k' h1 h2 => h k' (by omega) (by omega))
    · simp only [hs]
      exact ih (k+1) _ (fun k' h1 h2 => h k' (by omega) (by omega))

theorem upd4_other (a : FArr Nat) (p1 p2 p3 p4 v1 v2 v3 v4 p : Nat)
    (h1 : p ≠ p1) (h2 : p ≠ p2) (h3 : p ≠ p3) (h4 : p ≠ p4) :
    ((((a.upd p1 v1).upd p2 v2).upd p3 v3).upd p4 v4).get p = a.get p := by
  simp only [FArr.get_upd, if_neg h1, if_neg h2, if_neg h3, if_neg h4]

/-- what the `k` loop of one merge does to the row and the column of the kept port -/
theorem mergeK_effect (n i j : Nat) (hij : i ≠ j) (hi : i < n) (hj : j < n) :
    ∀ (fuel k0 : Nat) (a : FArr Nat), k0 + fuel = n →
      ∀ k, k0 ≤ k → k < n → k ≠ i → k ≠ j →
        (mergeK n i j fuel k0 a).get (k*n+i) = add64 (a.get (k*n+i)) (a.get (k*n+j)) ∧
        (mergeK n i j fuel k0 a).get (i*n+k) = add64 (a.get (i*n+k)) (a.get (j*n+k)) := by
  intro fuel
  induction fuel with
  | zero => intro k0 a h k h1 h2; omega
  | succ f ih =>
    intro k0 a h k h1 h2 hki hkj
    have hk0 : k0 < n := by omega
    unfold mergeK
    by_cases hskip : (k0 == i || k0 == j) = true
    · simp only [hskip, if_true]
      have : k0 = i ∨ k0 = j := by simpa using hskip
      exact ih (k0+1) a (by omega) k (by rcases this with e | e <;> omega) h2 hki hkj
    · simp only [hskip, Bool.false_eq_true, if_false]
      have hk0' : k0 ≠ i ∧ k0 ≠ j := by
        simp only [Bool.or_eq_true, beq_iff_eq, not_or] at hskip; exact hskip
      rcases Nat.eq_or_lt_of_le h1 with e | e
      · subst e
        constructor
        · rw [mergeK_frame n i j f (k0+1) _ (k0*n+i) (fun k' h1' h2' => by
            have hk' : k' < n := by omega
            exact ⟨cell_ne hi hi (Or.inl (by omega)), cell_ne hi hj (Or.inr hij),
                   cell_ne hi hk' (Or.inl hk0'.1), cell_ne hi hk' (Or.inl hk0'.2)⟩)]
          simp only [FArr.get_upd]
          rw [if_neg (cell_ne hi hk0 (Or.inl hk0'.2)), if_neg (cell_ne hi hk0 (Or.inl hk0'.1)),
              if_neg (cell_ne hi hj (Or.inr hij))]
          simp only [if_true]
        · rw [mergeK_frame n i j f (k0+1) _ (i*n+k0) (fun k' h1' h2' => by
            have hk' : k' < n := by omega
            exact ⟨cell_ne hk0 hi (Or.inr hk0'.1), cell_ne hk0 hj (Or.inr hk0'.2),
                   cell_ne hk0 hk' (Or.inr (by omega)), cell_ne hk0 hk' (Or.inl hij)⟩)]
          simp only [FArr.get_upd]
          rw [if_neg (cell_ne hk0 hk0 (Or.inl hij)),
              if_neg (cell_ne hk0 hj (Or.inl (Ne.symm hk0'.1))), if_neg (cell_ne hk0 hi (Or.inl (Ne.symm hk0'.1))),
              if_neg (cell_ne hk0 hj (Or.inl (Ne.symm hk0'.2))), if_neg (cell_ne hk0 hi (Or.inl (Ne.symm hk0'.2)))]
          simp only [if_true]
      · obtain ⟨r1, r2⟩ := ih (k0+1) _ (by omega) k (by omega) h2 hki hkj
        rw [r1, r2]
        have hne : k ≠ k0 := by omega
        rw [upd4_other _ _ _ _ _ _ _ _ _ (k*n+i) (cell_ne hi hi (Or.inl hne)) (cell_ne hi hj (Or.inl hne))
              (cell_ne hi hk0 (Or.inl hki)) (cell_ne hi hk0 (Or.inl hkj)),
            upd4_other _ _ _ _ _ _ _ _ _ (k*n+j) (cell_ne hj hi (Or.inl hne)) (cell_ne hj hj (Or.inl hne))
              (cell_ne hj hk0 (Or.inl hki)) (cell_ne hj hk0 (Or.inl hkj)),
            upd4_other _ _ _ _ _ _ _ _ _ (i*n+k) (cell_ne h2 hi (Or.inl (Ne.symm hk0'.1))) (cell_ne h2 hj (Or.inl (Ne.symm hk0'.1)))
              (cell_ne h2 hk0 (Or.inr hne)) (cell_ne h2 hk0 (Or.inl hij)),
            upd4_other _ _ _ _ _ _ _ _ _ (j*n+k) (cell_ne h2 hi (Or.inl (Ne.symm hk0'.2))) (cell_ne h2 hj (Or.inl (Ne.symm hk0'.2)))
              (cell_ne h2 hk0 (Or.inl (Ne.symm hij))) (cell_ne h2 hk0 (Or.inr hne))]
        exact ⟨rfl, rfl⟩

theorem isSw_upd_none (o : FArr (Option Obj)) (j q : Nat) :
    isSw ((o.upd j none).get q) = (if q = j then false else isSw (o.get q)) := by
  simp only [FArr.get_upd]; split <;> rfl

/-- the port loop of MERGE_SWITCH_PORTS, started at `j > i` on arrays `o`, `a` -/
theorem mergeJ_spec (n i : Nat) (hin : i < n) :
    ∀ (fuel j : Nat) (o : FArr (Option Obj)) (a : FArr Nat), i < j → j + fuel = n →
      (∀ q, (mergeJ n i fuel j o a).1.get q =
          if (j ≤ q ∧ q < n ∧ isSw (o.get q) = true) then none else o.get q) ∧
      (∀ x y, x < n → y < n → x ≠ i → y ≠ i → ¬(j ≤ x ∧ isSw (o.get x) = true) → ¬(j ≤ y ∧ isSw (o.get y) = true) →
          (mergeJ n i fuel j o a).2.get (x*n+y) = a.get (x*n+y)) ∧
      (∀ k, k < n → k ≠ i → ¬(j ≤ k ∧ isSw (o.get k) = true) →
          (mergeJ n i fuel j o a).2.get (k*n+i) =
            sumSw (fun q => isSw (o.get q)) (fun q => k*n+q) a fuel j (a.get (k*n+i)) ∧
          (mergeJ n i fuel j o a).2.get (i*n+k) =
            sumSw (fun q => isSw (o.get q)) (fun q => q*n+k) a fuel j (a.get (i*n+k))) := by
  intro fuel
  induction fuel with
  | zero =>
    intro j o a _ hj
    refine ⟨fun q => ?_, fun _ _ _ _ _ _ _ _ => rfl, fun _ _ _ _ => ⟨rfl, rfl⟩⟩
    rw [if_neg (fun h => by omega)]; rfl
  | succ f ih =>
    intro j o a hij hj
    have hjn : j < n := by omega
    have hij' : i ≠ j := by omega
    unfold mergeJ
    by_cases hs : isSw (o.get j) = true
    · simp only [hs, if_true]
      obtain ⟨ihO, ihF, ihC⟩ := ih (j+1) (o.upd j none)
        (((mergeK n i j n 0 a).upd (i*n+i) (add64 ((mergeK n i j n 0 a).get (i*n+i)) ((mergeK n i j n 0 a).get (j*n+j)))).upd (j*n+j) 0)
        (by omega) (by omega)
      -- the merged array on cells outside rows/columns i and j
      have hb : ∀ x y, x < n → y < n → x ≠ i → y ≠ i → x ≠ j → y ≠ j →
          (((mergeK n i j n 0 a).upd (i*n+i) (add64 ((mergeK n i j n 0 a).get (i*n+i)) ((mergeK n i j n 0 a).get (j*n+j)))).upd (j*n+j) 0).get (x*n+y)
            = a.get (x*n+y) := by
        intro x y hx hy hxi hyi hxj hyj
        simp only [FArr.get_upd]
        rw [if_neg (cell_ne hy hjn (Or.inl hxj)), if_neg (cell_ne hy hin (Or.inl hxi))]
        exact mergeK_frame n i j n 0 a _ (fun k' _ hk' => by
          have hk'n : k' < n := by omega
          exact ⟨cell_ne hy hin (Or.inr hyi), cell_ne hy hjn (Or.inr hyj),
                 cell_ne hy hk'n (Or.inl hxi), cell_ne hy hk'n (Or.inl hxj)⟩)
      have hcond : ∀ x, ¬(j ≤ x ∧ isSw (o.get x) = true) →
          x ≠ j ∧ ¬(j + 1 ≤ x ∧ isSw ((o.upd j none).get x) = true) := by
        intro x hx
        have hxj : x ≠ j := fun e => hx ⟨by omega, by rw [e]; exact hs⟩
        refine ⟨hxj, ?_⟩
        rw [isSw_upd_none, if_neg hxj]
        exact fun ⟨h1, h2⟩ => hx ⟨by omega, h2⟩
      refine ⟨?_, ?_, ?_⟩
      · intro q
        rw [ihO q, isSw_upd_none]
        by_cases hq : q = j
        · subst hq
          rw [if_neg (fun h => by omega), if_pos ⟨Nat.le_refl _, hjn, hs⟩]
          simp
        · simp only [if_neg hq, FArr.get_upd]
          by_cases hc : j ≤ q ∧ q < n ∧ isSw (o.get q) = true
          · rw [if_pos hc, if_pos ⟨by omega, hc.2.1, hc.2.2⟩]
          · rw [if_neg hc, if_neg (fun h => hc ⟨by omega, h.2.1, h.2.2⟩)]
      · intro x y hx hy hxi hyi hcx hcy
        obtain ⟨hxj, hcx'⟩ := hcond x hcx
        obtain ⟨hyj, hcy'⟩ := hcond y hcy
        rw [ihF x y hx hy hxi hyi hcx' hcy']
        exact hb x y hx hy hxi hyi hxj hyj
      · intro k hk hki hck
        obtain ⟨hkj, hck'⟩ := hcond k hck
        obtain ⟨c1, c2⟩ := ihC k hk hki hck'
        obtain ⟨e1, e2⟩ := mergeK_effect n i j hij' hin hjn n 0 a (by omega) k (Nat.zero_le _) hk hki hkj
        constructor
        · rw [c1]
          simp only [FArr.get_upd]
          rw [if_neg (cell_ne hin hjn (Or.inl hkj)), if_neg (cell_ne hin hin (Or.inl hki)), e1]
          conv => rhs; unfold sumSw
          simp only [hs, if_true]
          apply sumSw_congr2
          intro q hq1 hq2
          have hqn : q < n := by omega
          refine ⟨by show isSw (if q = j then none else o.get q) = isSw (o.get q); rw [if_neg (by omega)], fun _ => ?_⟩
          exact hb k q hk hqn hki (by omega) hkj (by omega)
        · rw [c2]
          simp only [FArr.get_upd]
          rw [if_neg (cell_ne hk hjn (Or.inl hij')), if_neg (cell_ne hk hin (Or.inr hki)), e2]
          conv => rhs; unfold sumSw
          simp only [hs, if_true]
          apply sumSw_congr2
          intro q hq1 hq2
          have hqn : q < n := by omega
          refine ⟨by show isSw (if q = j then none else o.get q) = isSw (o.get q); rw [if_neg (by omega)], fun _ => ?_⟩
          exact hb q k hqn hk (by omega) hki (by omega) hkj
    · have hs' : isSw (o.get j) = false := by cases h : isSw (o.get j) <;> simp_all
      simp only [hs', Bool.false_eq_true, if_false]
      obtain ⟨ihO, ihF, ihC⟩ := ih (j+1) o a (by omega) (by omega)
      have hcond : ∀ x, ¬(j ≤ x ∧ isSw (o.get x) = true) → ¬(j + 1 ≤ x ∧ isSw (o.get x) = true) :=
        fun x hx ⟨h1, h2⟩ => hx ⟨by omega, h2⟩
      refine ⟨?_, ?_, ?_⟩
      · intro q
        rw [ihO q]
        by_cases hc : j ≤ q ∧ q < n ∧ isSw (o.get q) = true
        · have hqj : q ≠ j := fun e => hs (by rw [← e]; exact hc.2.2)
          rw [if_pos hc, if_pos ⟨by omega, hc.2.1, hc.2.2⟩]
        · rw [if_neg hc, if_neg (fun h => hc ⟨by omega, h.2.1, h.2.2⟩)]
      · intro x y hx hy hxi hyi hcx hcy
        exact ihF x y hx hy hxi hyi (hcond x hcx) (hcond y hcy)
      · intro k hk hki hck
        obtain ⟨c1, c2⟩ := ihC k hk hki (hcond k hck)
        constructor
        · rw [c1]; conv => rhs; unfold sumSw
          simp only [hs', Bool.false_eq_true, if_false]
        · rw [c2]; conv => rhs; unfold sumSw
          simp only [hs', Bool.false_eq_true, if_false]

/-- the objects MERGE_SWITCH_PORTS keeps: non-NULL and not a port listed after the first port `i` -/
def keepOf (p : Pub) (i : Nat) : Nat → Bool :=
  fun q => liveOf p.objs q && !(decide (i < q) && isSw (p.objs.getD q none))

theorem firstSw_spec (objs : List (Option Obj)) (i : Nat) (h : firstSw objs = some i) :
    i < objs.length ∧ isSw (objs.getD i none) = true ∧ ∀ q, q < i → isSw (objs.getD q none) = false := by
  have hlt := firstSw_lt objs i h
  unfold firstSw at h
  simp only at h
  split at h
  · rename_i hl
    cases h
    refine ⟨hlt, ?_, ?_⟩
    · have := List.findIdx_getElem (w := hl)
      simpa [List.getD, List.getElem?_eq_getElem hl] using this
    · intro q hq
      have hql : q < objs.length := by omega
      have := List.not_of_lt_findIdx hq
      simpa [List.getD, List.getElem?_eq_getElem hql] using this
  · cases h

theorem trMerge_spec (p p' : Pub) (i : Nat) (hlen : p.objs.length = p.n)
    (hf : firstSw p.objs = some i) (h : trMerge p = (none, p')) :
    p'.n = rank (keepOf p i) p.n ∧ 2 ≤ p'.n ∧ keepOf p i i = true ∧
    (∀ x, x < p.n → keepOf p i x = true → p'.objs.getD (rank (keepOf p i) x) none = p.objs.getD x none) ∧
    (∀ x y, x < p.n → y < p.n → keepOf p i x = true → keepOf p i y = true → x ≠ i → y ≠ i →
      p'.vals.getD (rank (keepOf p i) x * p'.n + rank (keepOf p i) y) 0 = p.vals.getD (x*p.n + y) 0) ∧
    (∀ k, k < p.n → keepOf p i k = true → k ≠ i →
      p'.vals.getD (rank (keepOf p i) k * p'.n + rank (keepOf p i) i) 0 =
        sumSw (swOf p) (fun q => k*p.n+q) (toArr p.vals 0) (p.n - (i+1)) (i+1) (p.vals.getD (k*p.n+i) 0) ∧
      p'.vals.getD (rank (keepOf p i) i * p'.n + rank (keepOf p i) k) 0 =
        sumSw (swOf p) (fun q => q*p.n+k) (toArr p.vals 0) (p.n - (i+1)) (i+1) (p.vals.getD (i*p.n+k) 0)) := by
  obtain ⟨hil, hsi, _⟩ := firstSw_spec p.objs i hf
  have hin : i < p.n := by omega
  unfold trMerge at h
  rw [hf] at h
  simp only at h
  obtain ⟨mO, mF, mC⟩ := mergeJ_spec p.n i hin (p.n - (i+1)) (i+1) (toArr p.objs none) (toArr p.vals 0) (by omega) (by omega)
  obtain ⟨k1, k2, k3, k4⟩ := trRemoveNull_keeps _ p' (by simp) h
  dsimp only at k1 k2 k3 k4
  -- liveness of the merged object array = keepOf
  have hlive : ∀ q, q < p.n →
      liveOf (ofArr (mergeJ p.n i (p.n - (i+1)) (i+1) (toArr p.objs none) (toArr p.vals 0)).1 p.n) q = keepOf p i q := by
    intro q hq
    have e1 : liveOf (ofArr (mergeJ p.n i (p.n - (i+1)) (i+1) (toArr p.objs none) (toArr p.vals 0)).1 p.n) q
        = ((mergeJ p.n i (p.n - (i+1)) (i+1) (toArr p.objs none) (toArr p.vals 0)).1.get q).isSome := by
      unfold liveOf; rw [ofArr_getD _ _ _ _ hq]
    rw [e1, mO q]
    show (if i + 1 ≤ q ∧ q < p.n ∧ isSw (p.objs.getD q none) = true then none else p.objs.getD q none).isSome
      = ((p.objs.getD q none).isSome && !(decide (i < q) && isSw (p.objs.getD q none)))
    by_cases hc : i + 1 ≤ q ∧ q < p.n ∧ isSw (p.objs.getD q none) = true
    · rw [if_pos hc]
      have h1 : decide (i < q) = true := decide_eq_true (by omega)
      rw [h1, hc.2.2]; simp
    · rw [if_neg hc]
      have : (decide (i < q) && isSw (p.objs.getD q none)) = false := by
        apply Bool.eq_false_iff.mpr
        intro hb
        simp only [Bool.and_eq_true, decide_eq_true_eq] at hb
        exact hc ⟨by omega, hq, hb.2⟩
      rw [this]; simp
  have hrk : ∀ q, q ≤ p.n →
      rank (liveOf (ofArr (mergeJ p.n i (p.n - (i+1)) (i+1) (toArr p.objs none) (toArr p.vals 0)).1 p.n)) q
        = rank (keepOf p i) q := fun q hq => rank_congr _ _ q (fun q' hq' => hlive q' (by omega))
  have hnot : ∀ x, keepOf p i x = true → ¬(i + 1 ≤ x ∧ isSw ((toArr p.objs none).get x) = true) := by
    intro x hx ⟨h1, h2⟩
    unfold keepOf at hx
    simp only [Bool.and_eq_true, Bool.not_eq_true', Bool.and_eq_false_iff, decide_eq_false_iff_not] at hx
    rcases hx.2 with h | h
    · omega
    · have h4 : isSw (p.objs.getD x none) = true := h2
      rw [h4] at h; cases h
  have hki : keepOf p i i = true := by
    unfold keepOf liveOf
    have h1 : (p.objs.getD i none).isSome = true := by
      cases hx : p.objs.getD i none with
      | none => rw [hx] at hsi; simp [isSw] at hsi
      | some _ => rfl
    have h2 : decide (i < i) = false := by simp
    rw [h1, h2]; rfl
  have hcell : ∀ x y, x < p.n → y < p.n →
      (ofArr (mergeJ p.n i (p.n - (i+1)) (i+1) (toArr p.objs none) (toArr p.vals 0)).2 (p.n * p.n)).getD (x*p.n+y) 0
        = (mergeJ p.n i (p.n - (i+1)) (i+1) (toArr p.objs none) (toArr p.vals 0)).2.get (x*p.n+y) :=
    fun x y hx hy => ofArr_getD _ _ _ _ (cell_lt hx hy)
  refine ⟨by rw [k1, hrk p.n (Nat.le_refl _)], k2, hki, ?_, ?_, ?_⟩
  · intro x hx kx
    have := k3 x hx (by rw [hlive x hx]; exact kx)
    rw [hrk x (by omega)] at this
    rw [this, ofArr_getD _ _ _ _ hx, mO x, if_neg (fun hc => hnot x kx ⟨hc.1, hc.2.2⟩)]
    rfl
  · intro x y hx hy kx ky hxi hyi
    have := k4 x y hx hy (by rw [hlive x hx]; exact kx) (by rw [hlive y hy]; exact ky)
    rw [hrk x (by omega), hrk y (by omega)] at this
    rw [this, hcell x y hx hy, mF x y hx hy hxi hyi (hnot x kx) (hnot y ky)]
    rfl
  · intro k hk kk hki'
    obtain ⟨c1, c2⟩ := mC k hk hki' (hnot k kk)
    constructor
    · have := k4 k i hk hin (by rw [hlive k hk]; exact kk) (by rw [hlive i hin]; exact hki)
      rw [hrk k (by omega), hrk i (by omega)] at this
      rw [this, hcell k i hk hin, c1]
      rfl
    · have := k4 i k hin hk (by rw [hlive i hin]; exact hki) (by rw [hlive k hk]; exact kk)
      rw [hrk k (by omega), hrk i (by omega)] at this
      rw [this, hcell i k hin hk, c2]
      rfl

end Hw.Dist
