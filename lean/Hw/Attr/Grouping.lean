/-
  Hw.Attr.Grouping — model of the grouping-by-distances algorithm of hwloc/distances.c at the default accuracy
  (`HWLOC_GROUPING_ACCURACY` unset: the only accuracy tried is 0.0f, for which `hwloc_compare_values` is the exact
  integer comparison): `hwloc__check_grouping_matrix`, `hwloc__find_groups_by_min_distance` (with its
  `while (firstfound != -1)` rescan loop), the give-up rules, the factorised matrix between the groups and the
  recursion of `hwloc__groups_by_distances` on it.  Core Lean only.

  A matrix is a function `M i j` (= `VALUE(i, j)`), group ids are a function `Nat → Nat` (`groupids[]`, 0 = no group).
  The code has no max-distance variant: bandwidth matrices are never grouped (`kind & (LATENCY|HOPS)` is required).
-/
namespace Hw.Grouping

abbrev Mat := Nat → Nat → Nat

def U64MAX : Nat := 18446744073709551615
def W64 : Nat := 18446744073709551616
/-- `HWLOC_DISTANCES_KIND_VALUE_LATENCY | HWLOC_DISTANCES_KIND_VALUE_HOPS` -/
def KIND_GROUPABLE : Nat := 36
/-- `HWLOC_GROUP_KIND_DISTANCE` -/
def GROUP_KIND_DISTANCE : Nat := 900

/-- `hwloc_compare_values(a, b, 0.0f)` -/
def cmpVals (a b : Nat) : Int := if a < b then -1 else if a = b then 0 else 1

/-- inner loop of "find the minimal distance" for row `i` -/
def minRow (M : Mat) (n i : Nat) (cur : Nat) : Nat :=
  (List.range n).foldl (fun c j => if i ≠ j ∧ M i j < c then M i j else c) cur

/-- `min_distance` after the double loop (starts at `UINT64_MAX`) -/
def minDist (M : Mat) (n : Nat) : Nat :=
  (List.range n).foldl (fun c i => minRow M n i c) U64MAX

/-- `hwloc__check_grouping_matrix(...) == 0` at accuracy 0: for every `i < j`: `M i j = M j i` and `M i j > M i i`
(only the pairs `i < j` are looked at, so the diagonal of the last row is never compared) -/
def checkMatrix (M : Mat) (n : Nat) : Bool :=
  (List.range n).all fun i => (List.range n).all fun j =>
    !(decide (i < j)) || (cmpVals (M i j) (M j i) == 0 && !(decide (cmpVals (M i j) (M i i) ≤ 0)))

def upd (f : Nat → Nat) (k v : Nat) : Nat → Nat := fun x => if x = k then v else f x

/-- state of the rescan loops: `groupids`, `size`, `newfirstfound` (`none` = `(unsigned)-1`) -/
structure Scan where
  ids : Nat → Nat
  size : Nat
  nff : Option Nat

/-- `for(k=0; k<nbobjs; k++) if (!groupids[k] && VALUE(j,k) == min_distance) { groupids[k]=groupid; size++; if (nff==-1) nff=k; }` -/
def scanK (M : Mat) (md gid j : Nat) : (fuel k : Nat) → Scan → Scan
  | 0, _, s => s
  | f+1, k, s =>
    scanK M md gid j f (k+1)
      (if s.ids k = 0 ∧ M j k = md then ⟨upd s.ids k gid, s.size + 1, if s.nff.isNone then some k else s.nff⟩ else s)

/-- `for(j=firstfound; j<nbobjs; j++) if (groupids[j] == groupid) <scanK>` -/
def scanJ (M : Mat) (md gid n : Nat) : (fuel j : Nat) → Scan → Scan
  | 0, _, s => s
  | f+1, j, s => scanJ M md gid n f (j+1) (if s.ids j = gid then scanK M md gid j n 0 s else s)

/-- one pass of the `while` body starting at `ff` -/
def pass (M : Mat) (md gid n ff : Nat) (ids : Nat → Nat) (size : Nat) : Scan :=
  scanJ M md gid n (n - ff) ff ⟨ids, size, none⟩

/-- `while (firstfound != (unsigned)-1) { … firstfound = newfirstfound; }`; `none` = out of fuel
(never with fuel `n + 1`: `grow_fuel`) -/
def grow (M : Mat) (md gid n : Nat) : (fuel ff : Nat) → (ids : Nat → Nat) → (size : Nat) → Option ((Nat → Nat) × Nat)
  | 0, _, _, _ => none
  | f+1, ff, ids, size =>
    match (pass M md gid n ff ids size).nff with
    | none => some ((pass M md gid n ff ids size).ids, (pass M md gid n ff ids size).size)
    | some k => grow M md gid n f k (pass M md gid n ff ids size).ids (pass M md gid n ff ids size).size

/-- state of the outer `for(i…)` loop: `groupids`, `groupid` (next id, starts at 1), `skipped` -/
structure Out where
  ids : Nat → Nat
  gid : Nat
  skipped : Nat

/-- body of the outer loop for object `i` -/
def outerStep (M : Mat) (md n i : Nat) (o : Out) : Out :=
  if o.ids i ≠ 0 then o
  else match grow M md o.gid n (n + 1) i (upd o.ids i o.gid) 1 with
    | none => o                                      -- unreachable (`grow_fuel`)
    | some (ids', size) =>
      if size = 1 then ⟨upd ids' i 0, o.gid, o.skipped + 1⟩      -- cancel this useless group
      else ⟨ids', o.gid + 1, o.skipped⟩

def outer (M : Mat) (md n : Nat) : (fuel i : Nat) → Out → Out
  | 0, _, o => o
  | f+1, i, o => outer M md n f (i+1) (outerStep M md n i o)

def outInit : Out := ⟨fun _ => 0, 1, 0⟩

/-- `hwloc__find_groups_by_min_distance` at accuracy 0: (number of groups, group ids); 0 groups = give up -/
def findGroups (M : Mat) (n : Nat) : Nat × (Nat → Nat) :=
  if minDist M n = U64MAX then (0, fun _ => 0)
  else
    let o := outer M (minDist M n) n n 0 outInit
    if o.gid = 2 ∧ o.skipped = 0 then (0, o.ids)     -- a single group containing all objects
    else (o.gid - 1, o.ids)

/-- one accuracy of the loop of `hwloc__groups_by_distances` (the only one at the default accuracy) -/
def tryGroups (M : Mat) (n : Nat) (needcheck : Bool) : Nat × (Nat → Nat) :=
  if needcheck && !checkMatrix M n then (0, fun _ => 0) else findGroups M n

/-- indexes of the objects with group id `g` -/
def members (ids : Nat → Nat) (n g : Nat) : List Nat := (List.range n).filter (fun j => ids j = g)

/-- `GROUP_VALUE(a, b)`: the `uint64_t` sum of the cells between the two groups divided by `groupsizes[a]*groupsizes[b]` -/
def groupValue (M : Mat) (n : Nat) (ids : Nat → Nat) (a b : Nat) : Nat :=
  ((members ids n (a+1)).foldl (fun acc i => (members ids n (b+1)).foldl (fun acc j => (acc + M i j) % W64) acc) 0)
    / ((members ids n (a+1)).length * (members ids n (b+1)).length)

/-- one round of grouping: `nb` groups over `n` objects with these ids -/
structure Round where
  n : Nat
  nb : Nat
  ids : List Nat
deriving Repr, DecidableEq

def Round.members (r : Round) (g : Nat) : List Nat := Hw.Grouping.members (fun i => r.ids.getD i 0) r.n (g+1)

/-- the recursion of `hwloc__groups_by_distances` as long as no insertion fails (the caller cuts the list after the
first round in which `hwloc_topology_insert_group_object` returned NULL).  Fuel: every round at least halves the number
of objects (`findGroups_halves`), so `n` rounds are never reached. -/
def rounds (kind : Nat) : (fuel n : Nat) → Mat → Bool → List Round
  | 0, _, _, _ => []
  | f+1, n, M, needcheck =>
    if n ≤ 2 then []
    else if kind &&& KIND_GROUPABLE = 0 then []
    else
      let r := tryGroups M n needcheck
      if r.1 = 0 then []
      else ⟨n, r.1, (List.range n).map r.2⟩ :: rounds kind f r.1 (groupValue M n r.2) false

/-- union of the sets of the members of group `g` (0-based) of a round -/
def groupSet (sets : Nat → Nat) (r : Round) (g : Nat) : Nat :=
  (r.members g).foldl (fun acc i => acc ||| sets i) 0

end Hw.Grouping
