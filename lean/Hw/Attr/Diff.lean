/- Hw.Attr.Diff — model of hwloc/diff.c (topology diffs): build (pairwise DFS), apply, cancel loop.

   The model is generic in the string type `σ`: the C code only ever uses `strcmp(..) == 0`, `strdup`
   and NULL tests on strings, so only decidable equality is needed.  The driver instantiates `σ := String`,
   the concrete witnesses in the lemmas use `σ := Nat`.

   Abstraction (assumes a well-formed topology, C01): an object is addressed by `(depth, logical_index)`
   (what `hwloc_get_obj_by_depth` does through the level arrays) and the `parent` chain of an object is the
   static list `ancs` of the keys of its ancestors.  `shape1`/`shape2` are opaque tokens standing for
   everything `hwloc_diff_trees` compares and can only answer with TOO_COMPLEX
   (shape1: type, subtype, os_index, the four sets; shape2: the memcmp'ed type-specific attribute bytes). -/
namespace Hw.Diff

abbrev Key := Int × Nat
abbrev Mem := BitVec 64

structure Data (σ : Type) where
  depth : Int
  lidx : Nat
  ancs : List Key
  numa : Bool
  shape1 : σ
  shape2 : σ
  name : Option σ
  infos : List (σ × σ)
  lmem : Mem
  tmem : Mem
deriving DecidableEq, Repr

def Data.key {σ} (d : Data σ) : Key := (d.depth, d.lidx)

/-- an object with its four child lists (normal, memory, I/O, misc) -/
inductive Obj (σ : Type) where
  | mk (d : Data σ) (c0 c1 c2 c3 : List (Obj σ))

inductive Attr (σ : Type) where
  | size (old new : Mem)
  | name (old new : Option σ)          -- `none` = NULL string: never queued by build, hand-built lists only
  | info (name old new : σ)
  | unknown                              -- obj_attr.diff.generic.type outside the enum
deriving DecidableEq, Repr

inductive Entry (σ : Type) where
  | tooComplex (k : Key)
  | objAttr (k : Key) (a : Attr σ)
  | unknown                              -- generic.type outside the enum
deriving DecidableEq, Repr

def Entry.isTC {σ} : Entry σ → Bool
  | .tooComplex _ => true
  | _ => false

structure Topo (σ : Type) where
  root : Obj σ
  nbl : Int                              -- topology->nb_levels
  tinfos : List (σ × σ)                  -- topology->infos
  allowed : σ                            -- allowed_cpuset + allowed_nodeset (opaque)
  dists : List (σ × Bool)                -- per distances structure: compared fields (opaque), different_types != NULL
  mattrs : σ                             -- everything the memattr loop compares (opaque)
  kinds : σ                              -- everything the cpukind loop compares (opaque)

section
variable {σ : Type} [DecidableEq σ]

def Obj.data : Obj σ → Data σ
  | .mk d _ _ _ _ => d

/-! ### DFS flattening and local update -/

mutual
def Obj.flat : Obj σ → List (Data σ)
  | .mk d c0 c1 c2 c3 => d :: (flatL c0 ++ (flatL c1 ++ (flatL c2 ++ flatL c3)))
def flatL : List (Obj σ) → List (Data σ)
  | [] => []
  | x :: xs => x.flat ++ flatL xs
end

mutual
def Obj.mapData (g : Data σ → Data σ) : Obj σ → Obj σ
  | .mk d c0 c1 c2 c3 => .mk (g d) (mapDataL g c0) (mapDataL g c1) (mapDataL g c2) (mapDataL g c3)
def mapDataL (g : Data σ → Data σ) : List (Obj σ) → List (Obj σ)
  | [] => []
  | x :: xs => x.mapData g :: mapDataL g xs
end

/-! ### hwloc_diff_trees -/

/-- the infos loop (diff.c:216-232): entries queued so far, and whether it ran to completion -/
def infosGo (k : Key) : List (σ × σ) → List (σ × σ) → List (Entry σ) × Bool
  | [], [] => ([], true)
  | (n1, v1) :: r1, (n2, v2) :: r2 =>
    if n1 ≠ n2 then ([], false) else
    let r := infosGo k r1 r2
    ((if v1 ≠ v2 then [Entry.objAttr k (.info n1 v1 v2)] else []) ++ r.1, r.2)
  | _, _ => ([], false)

def infosDiff (k : Key) (i1 i2 : List (σ × σ)) : List (Entry σ) × Bool :=
  if i1.length ≠ i2.length then ([], false) else infosGo k i1 i2

def nameDiff (a b : Data σ) : List (Entry σ) :=
  if a.name ≠ b.name then [.objAttr a.key (.name a.name b.name)] else []

def sizeDiff (a b : Data σ) : List (Entry σ) :=
  if a.numa ∧ a.lmem ≠ b.lmem then [.objAttr a.key (.size a.lmem b.lmem)] else []

/-- one stage of hwloc_diff_trees: the entries queued by the stage, then either the remaining stages or
    `goto out_too_complex` (which queues TOO_COMPLEX for obj1 and returns) -/
def stage (k : Key) (r : List (Entry σ) × Bool) (next : List (Entry σ)) : List (Entry σ) :=
  r.1 ++ (if r.2 then next else [.tooComplex k])

mutual
def diffTrees : Obj σ → Obj σ → List (Entry σ)
  | .mk a a0 a1 a2 a3, .mk b b0 b1 b2 b3 =>
    -- depth, type/subtype/os_index/sets, then "a name that exists on one side only" (diff.c:157-159)
    if a.depth ≠ b.depth ∨ a.shape1 ≠ b.shape1 ∨ a.name.isSome ≠ b.name.isSome then [.tooComplex a.key] else
    stage a.key (nameDiff a b ++ sizeDiff a b, decide (a.shape2 = b.shape2))
    (stage a.key (infosDiff a.key a.infos b.infos)
    (stage a.key (diffKids a0 b0)
    (stage a.key (diffKids a1 b1)
    (stage a.key (diffKids a2 b2)
    (stage a.key (diffKids a3 b3) [])))))
/-- one `for (child1, child2)` loop: entries of the common prefix; false when one list is longer -/
def diffKids : List (Obj σ) → List (Obj σ) → List (Entry σ) × Bool
  | x :: xs, y :: ys =>
    let r := diffKids xs ys
    (diffTrees x y ++ r.1, r.2)
  | [], [] => ([], true)
  | _ :: _, [] => ([], false)
  | [], _ :: _ => ([], false)
end

/-- the distances loop (diff.c:369-389): the structures are compared pairwise, field by field (unique_type,
    whether a per-object types array exists, nbobjs, kind, that array, the values, the objects' logical
    indexes); true = goto roottoocomplex.  Each structure is the opaque token of those fields plus the
    `different_types != NULL` flag, so the loop accepts exactly equal lists. -/
def distsDiffer (l1 l2 : List (σ × Bool)) : Bool := decide (l1 ≠ l2)

/-- hwloc_topology_diff_build (flags = 0, both loaded): return value and the list left in `*diffp` -/
def build (A B : Topo σ) : Int × List (Entry σ) :=
  let d := diffTrees A.root B.root
  let rtc : List (Entry σ) := [.tooComplex A.root.data.key]
  if d.any Entry.isTC then (1, d) else
  if A.allowed ≠ B.allowed then (1, d ++ rtc) else
  let i := infosDiff (A.nbl, 0) A.tinfos B.tinfos
  let d := d ++ i.1
  if !i.2 then (1, d ++ rtc) else
  if distsDiffer A.dists B.dists then (1, d ++ rtc) else
  if A.mattrs ≠ B.mattrs then (1, d ++ rtc) else
  if A.kinds ≠ B.kinds then (1, d ++ rtc) else
  (0, d)

/-! ### hwloc_apply_diff_one / hwloc_topology_diff_apply -/

def Topo.flat (T : Topo σ) : List (Data σ) := T.root.flat

def Topo.mapData (T : Topo σ) (g : Data σ → Data σ) : Topo σ := { T with root := T.root.mapData g }

/-- hwloc_get_obj_by_depth: the object stored at `levels[depth][idx]` -/
def getObj (T : Topo σ) (k : Key) : Option (Data σ) := T.flat.find? (fun d => d.key = k)

/-- first `(name, old)` match gets `new` (diff.c:528-537) -/
def replaceFirst (nm old new : σ) : List (σ × σ) → Option (List (σ × σ))
  | [] => none
  | (n, v) :: r =>
    if n = nm ∧ v = old then some ((n, new) :: r)
    else (replaceFirst nm old new r).map ((n, v) :: ·)

def sizeFun (tgt : Data σ) (new delta : Mem) (x : Data σ) : Data σ :=
  if x.key = tgt.key then { x with lmem := new, tmem := x.tmem + delta }
  else if x.key ∈ tgt.ancs then { x with tmem := x.tmem + delta }
  else x

def nameFun (k : Key) (new : σ) (x : Data σ) : Data σ :=
  if x.key = k then { x with name := some new } else x

def infosFun (k : Key) (infos : List (σ × σ)) (x : Data σ) : Data σ :=
  if x.key = k then { x with infos := infos } else x

def Attr.swap : Attr σ → Attr σ
  | .size o n => .size n o
  | .name o n => .name n o
  | .info nm o n => .info nm n o
  | .unknown => .unknown

/-- old/new as seen through the REVERSE flag -/
def Attr.oriented (rev : Bool) (a : Attr σ) : Attr σ := if rev then a.swap else a

/-- body of hwloc_apply_diff_one for an OBJ_ATTR entry, old/new already oriented; `none` = return -1.
    A hand-built NAME entry with a NULL side is answered with `none`: the C code returns -1 when the object
    has no name and is undefined (strcmp/strdup of NULL) otherwise; the harness never executes that case. -/
def applyAttr (T : Topo σ) (k : Key) (a : Attr σ) : Option (Topo σ) :=
  match getObj T k with
  | some d =>
    match a with
    | .size o n => if d.numa ∧ d.lmem = o then some (T.mapData (sizeFun d n (n - o))) else none
    | .name (some o) (some n) => if d.name = some o then some (T.mapData (nameFun k n)) else none
    | .name _ _ => none
    | .info nm o n => (replaceFirst nm o n d.infos).map (fun l => T.mapData (infosFun k l))
    | .unknown => none
  | none =>
    if k.1 = T.nbl then
      match a with
      | .info nm o n => (replaceFirst nm o n T.tinfos).map (fun l => { T with tinfos := l })
      | _ => none
    else none

/-- hwloc_apply_diff_one -/
def applyOne (rev : Bool) (T : Topo σ) : Entry σ → Option (Topo σ)
  | .objAttr k a => applyAttr T k (a.oriented rev)
  | _ => none

/-- hwloc_cancel_diff (diff.c:558-566): the already applied prefix is undone *last applied first*
    (recursion to the end of the prefix, then apply on the way back), flag flipped, errors ignored -/
def cancel (rev : Bool) (T : Topo σ) : List (Entry σ) → Topo σ
  | [] => T
  | e :: r =>
    let T' := cancel rev T r
    (applyOne (!rev) T' e).getD T'

/-- the main loop of hwloc_topology_diff_apply: `done` = entries applied so far (reversed),
    result = (return value, topology afterwards) -/
def applyGo (rev : Bool) (T : Topo σ) (done : List (Entry σ)) : List (Entry σ) → Int × Topo σ
  | [] => (0, T)
  | e :: r =>
    match applyOne rev T e with
    | some T' => applyGo rev T' (e :: done) r
    | none => (- ((done.length : Int) + 1), cancel rev T done.reverse)

def apply (rev : Bool) (T : Topo σ) (d : List (Entry σ)) : Int × Topo σ := applyGo rev T [] d

/-- plain successful application of a whole list (no cancel), used by the statements -/
def applyAll (rev : Bool) (T : Topo σ) : List (Entry σ) → Option (Topo σ)
  | [] => some T
  | e :: r => (applyOne rev T e).bind (fun T' => applyAll rev T' r)

end
end Hw.Diff
