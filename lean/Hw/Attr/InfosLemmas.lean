/-
  Hw.Attr.InfosLemmas — the in-place array loops of REMOVE and REPLACE compute their list specifications
  (the compaction never overwrites a cell that is still to be read).
-/
import Hw.Attr.Infos
namespace Hw.Infos

theorem take_succ_of_lt (l : List Info) (i : Nat) (h : i < l.length) : l.take (i+1) = l.take i ++ [l[i]] := by
  rw [List.take_add_one, List.getElem?_eq_getElem h]; rfl

theorem ofList_cell (l : List Info) (i : Nat) (h : i < l.length) : (Arr.ofList l).cell i = l[i] := by
  simp [Arr.ofList, List.getElem?_eq_getElem h]

theorem range_succ_map (k : Nat) (f : Nat → Info) : (List.range (k+1)).map f = (List.range k).map f ++ [f k] := by
  rw [List.range_succ, List.map_append]; rfl

theorem map_congr_range (k : Nat) (f g : Nat → Info) (h : ∀ j, j < k → f j = g j) :
    (List.range k).map f = (List.range k).map g := by
  apply List.map_congr_left
  intro j hj; exact h j (by simpa using hj)

/-! ### REMOVE -/

structure RemInv (l : List Info) (n v : Option String) (i : Nat) (s : Arr × Nat) : Prop where
  le : s.2 ≤ i
  cnt : s.2 = (l.take i).countP (isMatch n v)
  tail : ∀ j, i ≤ j → s.1.cell j = (Arr.ofList l).cell j
  pre : (List.range (i - s.2)).map s.1.cell = (l.take i).filter (fun p => !isMatch n v p)

theorem removeLoop_inv (l : List Info) (n v : Option String) (i : Nat) (hi : i ≤ l.length) :
    RemInv l n v i (removeLoop n v (Arr.ofList l) i) := by
  induction i with
  | zero => exact ⟨Nat.le_refl _, by simp [removeLoop], fun _ _ => rfl, by simp [removeLoop]⟩
  | succ i ih =>
    have hlt : i < l.length := by omega
    obtain ⟨hle, hcnt, htail, hpre⟩ := ih (by omega)
    unfold removeLoop
    generalize removeLoop n v (Arr.ofList l) i = s at hle hcnt htail hpre
    obtain ⟨a', found⟩ := s
    simp only at hle hcnt htail hpre ⊢
    have hcell : a'.cell i = l[i] := by rw [htail i (Nat.le_refl _), ofList_cell l i hlt]
    have htk := take_succ_of_lt l i hlt
    by_cases hm : isMatch n v (a'.cell i) = true
    · simp only [hm, if_true]
      refine ⟨by omega, ?_, fun j hj => htail j (by omega), ?_⟩
      · rw [htk, List.countP_append, ← hcnt]; rw [hcell] at hm; simp [hm]
      · have e : i + 1 - (found + 1) = i - found := by omega
        rw [e, hpre, htk, List.filter_append]; rw [hcell] at hm; simp [hm]
    · have hm' : isMatch n v (a'.cell i) = false := by simpa using hm
      simp only [hm', Bool.false_eq_true, if_false]
      refine ⟨by omega, ?_, ?_, ?_⟩
      · rw [htk, List.countP_append, ← hcnt]; rw [hcell] at hm'; simp [hm']
      · intro j hj
        have : j ≠ i - found := by omega
        simp only [Arr.set, this, if_false]
        exact htail j (by omega)
      · have e : i + 1 - found = (i - found) + 1 := by omega
        rw [e, range_succ_map, htk, List.filter_append]
        congr 1
        · rw [← hpre]
          apply map_congr_range
          intro j hj
          have : j ≠ i - found := by omega
          simp [Arr.set, this]
        · rw [hcell] at hm'
          simp [Arr.set, hcell, hm']

/-- **REMOVE deletes exactly the matching pairs, keeps the order of the others, returns their number** -/
theorem removeArr_eq_spec (l : List Info) (n v : Option String) : removeArr l n v = removeSpec l n v := by
  unfold removeArr removeSpec
  have h := removeLoop_inv l n v l.length (Nat.le_refl _)
  generalize removeLoop n v (Arr.ofList l) l.length = s at h
  obtain ⟨a, found⟩ := s
  obtain ⟨_, hcnt, _, hpre⟩ := h
  simp only [List.take_length] at hcnt hpre
  simp only [Arr.toList]
  rw [hpre, hcnt]

/-! ### REPLACE -/

/-- the recursive specification, over an append -/
theorem go_append (n v : String) (xs ys : List Info) (seen : Bool) :
    replaceSpec.go n v (xs ++ ys) seen = replaceSpec.go n v xs seen ++ replaceSpec.go n v ys (seen || xs.any (fun p => p.1 == n)) := by
  induction xs generalizing seen with
  | nil => simp [replaceSpec.go]
  | cons x xs ih =>
    simp only [List.cons_append, replaceSpec.go, List.any_cons]
    by_cases hx : (x.1 == n) = true
    · simp only [hx, if_true, Bool.true_or, Bool.or_true]
      cases seen
      · simp only [Bool.false_eq_true, if_false, List.cons_append, ih]; simp
      · simp only [if_true, ih]; simp
    · have hx' : (x.1 == n) = false := by simpa using hx
      simp only [hx', Bool.false_eq_true, if_false, List.cons_append, ih, Bool.false_or]

theorem go_no_match (n v : String) (xs : List Info) (h : xs.countP (fun p => p.1 == n) = 0) :
    replaceSpec.go n v xs false = xs := by
  induction xs with
  | nil => rfl
  | cons x xs ih =>
    rw [List.countP_cons] at h
    have hx : (x.1 == n) = false := by
      cases hq : (x.1 == n) with
      | false => rfl
      | true => simp [hq] at h
    simp only [replaceSpec.go, hx, Bool.false_eq_true, if_false]
    rw [ih (by simpa [hx] using h)]

theorem any_iff_countP (n : String) (xs : List Info) :
    xs.any (fun p => p.1 == n) = decide (0 < xs.countP (fun p => p.1 == n)) := by
  induction xs with
  | nil => rfl
  | cons x xs ih =>
    rw [List.any_cons, List.countP_cons, ih]
    cases (x.1 == n) <;> simp

structure RepInv (l : List Info) (n v : String) (i : Nat) (s : Arr × Nat) : Prop where
  cnt : s.2 = (l.take i).countP (fun p => p.1 == n)
  tail : ∀ j, i ≤ j → s.1.cell j = (Arr.ofList l).cell j
  none : s.2 = 0 → ∀ j, s.1.cell j = (Arr.ofList l).cell j
  pre : 0 < s.2 → (List.range (i - (s.2 - 1))).map s.1.cell = replaceSpec.go n v (l.take i) false

theorem replaceLoop_inv (l : List Info) (n v : String) (i : Nat) (hi : i ≤ l.length) :
    RepInv l n v i (replaceLoop n v (Arr.ofList l) i) := by
  induction i with
  | zero => exact ⟨by simp [replaceLoop], fun _ _ => rfl, fun _ _ => rfl, by simp [replaceLoop]⟩
  | succ i ih =>
    have hlt : i < l.length := by omega
    obtain ⟨hcnt, htail, hnone, hpre⟩ := ih (by omega)
    unfold replaceLoop
    generalize replaceLoop n v (Arr.ofList l) i = s at hcnt htail hnone hpre
    obtain ⟨a', found⟩ := s
    simp only at hcnt htail hnone hpre ⊢
    have hle : found ≤ i := by
      rw [hcnt]; exact Nat.le_trans (List.countP_le_length) (by simp; omega)
    have hcell : a'.cell i = l[i] := by rw [htail i (Nat.le_refl _), ofList_cell l i hlt]
    have htk := take_succ_of_lt l i hlt
    by_cases hm : ((a'.cell i).1 == n) = true
    · simp only [hm, if_true]
      have hm2 : (l[i].1 == n) = true := by rw [← hcell]; exact hm
      by_cases hf : found = 0
      · -- first match: replace the value in place
        simp only [hf, if_true]
        refine ⟨?_, ?_, fun h => absurd h (by simp), ?_⟩
        · show 1 = _
          rw [htk, List.countP_append, ← hcnt, hf]; simp [hm2]
        · intro j hj
          have : j ≠ i := by omega
          simp only [Arr.set, this, if_false]; exact htail j (by omega)
        · intro _
          have hall := hnone hf
          have e : i + 1 - (1 - 1) = i + 1 := by omega
          rw [e, range_succ_map, htk, go_append]
          have hz : (l.take i).countP (fun p => p.1 == n) = 0 := by rw [← hcnt]; exact hf
          congr 1
          · rw [go_no_match n v _ hz]
            have : (List.range i).map (a'.set i ((a'.cell i).1, v)).cell = (List.range i).map (Arr.ofList l).cell := by
              apply map_congr_range
              intro j hj
              have : j ≠ i := by omega
              simp only [Arr.set, this, if_false]; exact hall j
            rw [this]
            -- the original cells below i are the list prefix
            apply List.ext_getElem
            · simp; omega
            · intro k h1 h2
              simp only [List.getElem_map, List.getElem_range, List.getElem_take]
              exact ofList_cell l k (by simp at h2; omega)
          · have hany : (l.take i).any (fun p => p.1 == n) = false := by rw [any_iff_countP, hz]; rfl
            have hn : (a'.cell i).1 = n := by simpa using hm
            simp [replaceSpec.go, hany, hm2, Arr.set, hn]
      · -- later match: dropped
        simp only [hf, if_false]
        have hpos : 0 < found := by omega
        refine ⟨?_, fun j hj => htail j (by omega), fun h => by omega, ?_⟩
        · rw [htk, List.countP_append, ← hcnt]; simp [hm2]
        · intro _
          have e : i + 1 - (found + 1 - 1) = i - (found - 1) := by omega
          rw [e, hpre hpos, htk, go_append]
          have hany : (l.take i).any (fun p => p.1 == n) = true := by
            rw [any_iff_countP, ← hcnt]; simpa using hpos
          simp [replaceSpec.go, hany, hm2]
    · have hm' : ((a'.cell i).1 == n) = false := by simpa using hm
      have hm2 : (l[i].1 == n) = false := by rw [← hcell]; exact hm'
      simp only [hm', Bool.false_eq_true, if_false]
      by_cases hf : 1 < found
      · -- non-match after ≥ 2 matches: moved left by found-1
        simp only [hf, if_true]
        have hpos : 0 < found := by omega
        refine ⟨?_, ?_, fun h => by omega, ?_⟩
        · rw [htk, List.countP_append, ← hcnt]; simp [hm2]
        · intro j hj
          have : j ≠ i - (found - 1) := by omega
          simp only [Arr.set, this, if_false]; exact htail j (by omega)
        · intro _
          have e : i + 1 - (found - 1) = (i - (found - 1)) + 1 := by omega
          rw [e, range_succ_map, htk, go_append]
          have hany : (l.take i).any (fun p => p.1 == n) = true := by
            rw [any_iff_countP, ← hcnt]; simpa using hpos
          congr 1
          · rw [← hpre hpos]
            apply map_congr_range
            intro j hj
            have : j ≠ i - (found - 1) := by omega
            simp [Arr.set, this]
          · simp [replaceSpec.go, hm2, Arr.set, hcell]
      · -- non-match, nothing to move
        simp only [hf, if_false]
        refine ⟨?_, fun j hj => htail j (by omega), hnone, ?_⟩
        · rw [htk, List.countP_append, ← hcnt]; simp [hm2]
        · intro hpos
          have h1 : found = 1 := by omega
          have e : i + 1 - (found - 1) = (i - (found - 1)) + 1 := by omega
          rw [e, range_succ_map, htk, go_append, ← hpre hpos]
          congr 1
          have e2 : i - (found - 1) = i := by omega
          simp [replaceSpec.go, hm2, e2, hcell]

/-- **REPLACE: first match gets the new value, later matches are deleted, others keep their order; appended if none** -/
theorem replaceArr_eq_spec (l : List Info) (n v : String) : replaceArr l n v = replaceSpec l n v := by
  unfold replaceArr replaceSpec
  have h := replaceLoop_inv l n v l.length (Nat.le_refl _)
  generalize replaceLoop n v (Arr.ofList l) l.length = s at h
  obtain ⟨a, found⟩ := s
  obtain ⟨hcnt, _, _, hpre⟩ := h
  simp only [List.take_length] at hcnt hpre
  simp only
  by_cases hf : found = 0
  · have : l.countP (fun p => p.1 == n) = 0 := by rw [← hcnt]; exact hf
    simp [hf, this]
  · have hc : ¬ l.countP (fun p => p.1 == n) = 0 := by rw [← hcnt]; exact hf
    simp only [hf, if_false, hc]
    simp only [Arr.toList]
    rw [hpre (by omega), hcnt]

end Hw.Infos
