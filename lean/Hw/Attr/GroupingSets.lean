/-
  Hw.Attr.GroupingSets — the Groups of one round of `hwloc__groups_by_distances` as sets: every round produced by the model is
  well-shaped (at least two members per Group, members of different Groups differ), a Group's cpuset is a union of its members'
  cpusets, hence inside the root and disjoint from the other Groups of the round when the objects are disjoint; inserting the
  Groups of a round through the model of `hwloc___insert_object_by_cpuset` keeps the tree laminar (`insAll_good`).
-/
import Hw.Attr.GroupingLemmas
import Hw.Topo.InsertLemmas
namespace Hw.Grouping
open Hw.Topo.Ins

/-- shape of a round -/
structure GoodRound (r : Round) : Prop where
  halves : 2 * r.nb ≤ r.n
  pos : r.nb ≠ 0
  bound : ∀ i, r.ids.getD i 0 ≤ r.nb
  two : ∀ g, g < r.nb → ∃ a b, a ≠ b ∧ a < r.n ∧ b < r.n ∧ r.ids.getD a 0 = g + 1 ∧ r.ids.getD b 0 = g + 1

theorem getD_map_range (f : Nat → Nat) (n i : Nat) : ((List.range n).map f).getD i 0 = if i < n then f i else 0 := by
  rw [List.getD_eq_getElem?_getD, List.getElem?_map]
  by_cases h : i < n
  · rw [List.getElem?_range h, if_pos h]; rfl
  · rw [if_neg h, List.getElem?_eq_none (by simp; omega)]; rfl

theorem tryGroups_eq (M : Mat) (n : Nat) (b : Bool) (h : (tryGroups M n b).1 ≠ 0) : tryGroups M n b = findGroups M n := by
  unfold tryGroups at h ⊢
  split
  · rename_i hc; rw [if_pos hc] at h; exact absurd rfl h
  · rfl

theorem round_good (M : Mat) (n : Nat) (b : Bool) (h : (tryGroups M n b).1 ≠ 0) :
    GoodRound ⟨n, (tryGroups M n b).1, (List.range n).map (tryGroups M n b).2⟩ := by
  have he := tryGroups_eq M n b h
  rw [he] at h ⊢
  obtain ⟨h1, h2, h3, _, h5⟩ := findGroups_spec M n h
  refine ⟨h5, h, ?_, ?_⟩
  · intro i
    show ((List.range n).map (findGroups M n).2).getD i 0 ≤ _
    rw [getD_map_range]; split
    · exact h1 i
    · omega
  · intro g hg
    have hg : g < (findGroups M n).1 := hg
    obtain ⟨a, c, hac, ha, hc, ha', hc'⟩ := h3 (g + 1) (by omega) (by omega)
    refine ⟨a, c, hac, ha, hc, ?_, ?_⟩
    · show ((List.range n).map (findGroups M n).2).getD a 0 = g + 1
      rw [getD_map_range, if_pos ha]; exact ha'
    · show ((List.range n).map (findGroups M n).2).getD c 0 = g + 1
      rw [getD_map_range, if_pos hc]; exact hc'

/-- every round the model produces is well-shaped -/
theorem rounds_good (kind : Nat) : ∀ (f n : Nat) (M : Mat) (b : Bool), ∀ r ∈ rounds kind f n M b, GoodRound r
  | 0, _, _, _, r, h => by simp [rounds] at h
  | f+1, n, M, b, r, h => by
    unfold rounds at h
    split at h
    · simp at h
    · split at h
      · simp at h
      · simp only at h
        split at h
        · simp at h
        · rename_i hnb
          rcases List.mem_cons.mp h with h | h
          · subst h; exact round_good M n b hnb
          · exact rounds_good kind f _ _ _ r h

theorem mem_members {r : Round} {g i : Nat} : i ∈ r.members g ↔ i < r.n ∧ r.ids.getD i 0 = g + 1 := by
  unfold Round.members members
  rw [List.mem_filter, List.mem_range]
  simp

/-- the classes of a round are disjoint: an object is a member of one Group at most -/
theorem members_disjoint {r : Round} {g1 g2 i : Nat} (h1 : i ∈ r.members g1) (h2 : i ∈ r.members g2) : g1 = g2 := by
  have a := (mem_members.mp h1).2
  have b := (mem_members.mp h2).2
  omega

theorem length_ge_two {l : List Nat} {a b : Nat} (ha : a ∈ l) (hb : b ∈ l) (hab : a ≠ b) : 2 ≤ l.length := by
  match l, ha, hb with
  | [x], ha, hb =>
    simp at ha hb; omega
  | x :: y :: rest, _, _ => simp

/-- every Group has at least two members -/
theorem members_two {r : Round} (h : GoodRound r) {g : Nat} (hg : g < r.nb) : 2 ≤ (r.members g).length := by
  obtain ⟨a, b, hab, ha, hb, ha', hb'⟩ := h.two g hg
  exact length_ge_two (mem_members.mpr ⟨ha, ha'⟩) (mem_members.mpr ⟨hb, hb'⟩) hab

/-! ## Group sets -/

theorem sub_or {a b R : Nat} (ha : sub a R) (hb : sub b R) : sub (a ||| b) R := by
  unfold sub at *
  rw [Nat.and_or_distrib_right, ha, hb]

theorem dj_or {a b y : Nat} (ha : dj a y) (hb : dj b y) : dj (a ||| b) y := by
  unfold dj at *
  rw [Nat.and_or_distrib_right, ha, hb]; rfl

theorem foldl_or_sub (sets : Nat → Nat) (R : Nat) : ∀ (l : List Nat) (acc : Nat), sub acc R → (∀ i ∈ l, sub (sets i) R) →
    sub (l.foldl (fun acc i => acc ||| sets i) acc) R
  | [], _, h, _ => h
  | x :: l, acc, h, hl => by
    simp only [List.foldl_cons]
    exact foldl_or_sub sets R l _ (sub_or h (hl x (List.mem_cons_self ..))) (fun i hi => hl i (List.mem_cons_of_mem _ hi))

theorem foldl_or_dj (sets : Nat → Nat) (y : Nat) : ∀ (l : List Nat) (acc : Nat), dj acc y → (∀ i ∈ l, dj (sets i) y) →
    dj (l.foldl (fun acc i => acc ||| sets i) acc) y
  | [], _, h, _ => h
  | x :: l, acc, h, hl => by
    simp only [List.foldl_cons]
    exact foldl_or_dj sets y l _ (dj_or h (hl x (List.mem_cons_self ..))) (fun i hi => hl i (List.mem_cons_of_mem _ hi))

/-- a Group's set lies inside whatever contains its members' sets (e.g. the root cpuset) -/
theorem groupSet_sub (sets : Nat → Nat) (r : Round) (g R : Nat) (h : ∀ i, i < r.n → sub (sets i) R) : sub (groupSet sets r g) R := by
  unfold groupSet
  refine foldl_or_sub sets R _ 0 ?_ (fun i hi => h i (mem_members.mp hi).1)
  unfold sub; exact Nat.zero_and R

/-- the Groups of one round are pairwise disjoint when the objects are -/
theorem groupSet_disjoint (sets : Nat → Nat) (r : Round) (g1 g2 : Nat) (hg : g1 ≠ g2)
    (h : ∀ i j, i < r.n → j < r.n → i ≠ j → dj (sets i) (sets j)) : dj (groupSet sets r g1) (groupSet sets r g2) := by
  unfold groupSet
  refine foldl_or_dj sets _ _ 0 (by unfold dj; exact Nat.zero_and _) ?_
  intro i hi
  rw [dj_comm]
  refine foldl_or_dj sets _ _ 0 (by unfold dj; exact Nat.zero_and _) ?_
  intro j hj
  have hij : j ≠ i := fun e => hg (members_disjoint hi (e ▸ hj))
  exact h j i (mem_members.mp hj).1 (mem_members.mp hi).1 hij

/-- the Group objects the grouping code hands to the insertion routine in one round -/
def roundObjs (sets : Nat → Nat) (r : Round) (subkind base : Nat) : List IObj :=
  (List.range r.nb).map (fun g => { gp := base + g, type := Hw.Topo.tGROUP, key := groupSet sets r g,
                                    kind := GROUP_KIND_DISTANCE, subkind := subkind })

/-- **inserting the Groups of a round keeps the tree laminar and loses no object**, whatever the matrix was: on a laminar tree
whose root contains the sets of the grouped objects, the insertions never get stuck and the result is laminar with the same root -/
theorem round_insert_laminar (t : T) (hL : Lam t) (sets : Nat → Nat) (r : Round) (subkind base : Nat)
    (hs : ∀ i, i < r.n → sub (sets i) t.o.key) :
    ∃ t', insAll t (roundObjs sets r subkind base) = some t' ∧ Lam t' ∧ t'.o.key = t.o.key ∧
      ∀ g, cntT g t ≤ cntT g t' ∧ cntT g t' ≤ cntT g t + ((roundObjs sets r subkind base).map (·.gp)).count g := by
  apply insAll_good _ t hL
  intro o ho
  unfold roundObjs at ho
  obtain ⟨g, _, rfl⟩ := List.mem_map.mp ho
  exact groupSet_sub sets r g _ hs

end Hw.Grouping
