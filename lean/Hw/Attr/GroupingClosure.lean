/-
  Hw.Attr.GroupingClosure — closure characterisation of `hwloc__find_groups_by_min_distance` (model Hw.Attr.Grouping).

  The code's comment promises the transitive closure of the "minimal distance" graph.  That is NOT what the loop computes for every
  matrix (`newfirstfound` is the first object found in a pass, not the smallest one: see `C13_group_closure_not_transitive_witness`).
  What holds for every matrix is soundness (same id ⇒ connected, `findGroups_spec`).  Here: when the minimal-distance relation is
  symmetric and transitive among the `n` objects (block-structured matrices: every real NUMA/package latency matrix), the ids are
  EXACTLY its classes: two distinct objects share a non-zero id iff their cell is minimal, and an object is left alone iff none of
  its cells is minimal.
-/
import Hw.Attr.GroupingLemmas
namespace Hw.Grouping

/-! ## grouped objects stay grouped -/

theorem scanK_keep (M : Mat) (md gid j : Nat) (hg : gid ≠ 0) (x : Nat) :
    ∀ (f k : Nat) (s : Scan), s.ids x ≠ 0 → (scanK M md gid j f k s).ids x ≠ 0
  | 0, _, _, h => h
  | f+1, k, s, h => by
    unfold scanK
    split
    · apply scanK_keep M md gid j hg x f (k+1)
      show upd s.ids k gid x ≠ 0
      by_cases hx : x = k
      · subst hx; rw [upd_same]; exact hg
      · rw [upd_other _ _ hx]; exact h
    · exact scanK_keep M md gid j hg x f (k+1) s h

theorem scanJ_keep (M : Mat) (md gid n : Nat) (hg : gid ≠ 0) (x : Nat) :
    ∀ (f j : Nat) (s : Scan), s.ids x ≠ 0 → (scanJ M md gid n f j s).ids x ≠ 0
  | 0, _, _, h => h
  | f+1, j, s, h => by
    unfold scanJ
    split
    · exact scanJ_keep M md gid n hg x f (j+1) _ (scanK_keep M md gid j hg x n 0 s h)
    · exact scanJ_keep M md gid n hg x f (j+1) s h

theorem grow_keep (M : Mat) (md gid n : Nat) (hg : gid ≠ 0) (x : Nat) :
    ∀ (fuel ff : Nat) (ids : Nat → Nat) (size : Nat) (r : (Nat → Nat) × Nat),
      grow M md gid n fuel ff ids size = some r → ids x ≠ 0 → r.1 x ≠ 0
  | 0, _, _, _, _, h, _ => by simp [grow] at h
  | fuel+1, ff, ids, size, r, h, hx => by
    have hp : (pass M md gid n ff ids size).ids x ≠ 0 := scanJ_keep M md gid n hg x _ _ _ hx
    unfold grow at h
    split at h
    · injection h with h; subst h; exact hp
    · exact grow_keep M md gid n hg x fuel _ _ _ r h hp

/-- after the scan of row `j`, every object whose cell with `j` is minimal is grouped -/
theorem scanK_complete (M : Mat) (md gid j n : Nat) (hg : gid ≠ 0) :
    ∀ (f k : Nat) (s : Scan), k + f = n → ∀ x, k ≤ x → x < n → M j x = md → (scanK M md gid j f k s).ids x ≠ 0
  | 0, k, s, hk, x, h1, h2, _ => by omega
  | f+1, k, s, hk, x, h1, h2, hm => by
    unfold scanK
    by_cases hx : x = k
    · subst hx
      apply scanK_keep M md gid j hg x f (x+1)
      split
      · show upd s.ids x gid x ≠ 0
        rw [upd_same]; exact hg
      · rename_i hc
        intro h0; exact hc ⟨h0, hm⟩
    · exact scanK_complete M md gid j n hg f (k+1) _ (by omega) x (by omega) h2 hm

/-- the first pass scans the row of the seed: all its minimal neighbours end up grouped -/
theorem grow_row (M : Mat) (md gid n i : Nat) (hg : gid ≠ 0) (hi : i < n) (fuel : Nat) (ids : Nat → Nat) (size : Nat)
    (hii : ids i = gid) (r : (Nat → Nat) × Nat) (h : grow M md gid n (fuel+1) i ids size = some r) :
    ∀ x, x < n → M i x = md → r.1 x ≠ 0 := by
  intro x hx hm
  have hp : (pass M md gid n i ids size).ids x ≠ 0 := by
    unfold pass
    obtain ⟨m, hm'⟩ : ∃ m, n - i = m + 1 := ⟨n - i - 1, by omega⟩
    rw [hm']
    unfold scanJ
    rw [if_pos (show (⟨ids, size, none⟩ : Scan).ids i = gid from hii)]
    exact scanJ_keep M md gid n hg x m (i+1) _ (scanK_complete M md gid i n hg n 0 _ (by omega) x (by omega) hx hm)
  unfold grow at h
  split at h
  · injection h with h; subst h; exact hp
  · exact grow_keep M md gid n hg x fuel _ _ _ r h hp

/-! ## one step of the outer loop, described -/

theorem step_facts (M : Mat) (md n i : Nat) (hi : i < n) (o : Out) (h : OInv M md n o) (h0 : o.ids i = 0)
    (C : Nat → Prop) (hC : ∀ j k, j < n → k < n → C j → M j k = md → C k) (hCi : C i) :
    ∃ ids' size', grow M md o.gid n (n + 1) i (upd o.ids i o.gid) 1 = some (ids', size') ∧
      ids' i = o.gid ∧
      (∀ x, x ≠ i → ids' x = o.ids x ∨ (o.ids x = 0 ∧ ids' x = o.gid ∧ x < n)) ∧
      (∀ x, ids' x = o.gid → C x) ∧
      (∀ x, x < n → M i x = md → ids' x ≠ 0) ∧
      (size' = 1 → ∀ x, x ≠ i → ids' x = o.ids x) := by
  have hg : o.gid ≠ 0 := by have := h.gpos; omega
  have hnz1 : nz (upd o.ids i o.gid) n = nz o.ids n + 1 := nz_upd_lt o.ids i o.gid h0 hg n hi
  obtain ⟨r, hr⟩ := grow_fuel M md o.gid n hg (n + 1) i (upd o.ids i o.gid) 1 (by omega)
  have hbase : Inv C o.gid n (upd o.ids i o.gid) 1 ⟨upd o.ids i o.gid, 1, none⟩ := by
    apply Inv.refl
    intro x hx
    by_cases hxi : x = i
    · subst hxi; exact hCi
    · rw [upd_other _ _ hxi] at hx
      have := h.bound x; omega
  have hI := grow_inv M md o.gid n C hC hg (upd o.ids i o.gid) 1 (n + 1) i (upd o.ids i o.gid) 1 r hbase hr
  have hrow := grow_row M md o.gid n i hg hi n (upd o.ids i o.gid) 1 (upd_same _ _ _) r hr
  obtain ⟨ids', size'⟩ := r
  have hmono : ∀ x, upd o.ids i o.gid x ≠ 0 → ids' x = upd o.ids i o.gid x := hI.mono
  have hnew : ∀ x, upd o.ids i o.gid x = 0 → ids' x = 0 ∨ (ids' x = o.gid ∧ x < n) := hI.new
  have hcnt : size' + nz (upd o.ids i o.gid) n = 1 + nz ids' n := hI.cnt
  have hother : ∀ x, x ≠ i → (ids' x = o.ids x) ∨ (o.ids x = 0 ∧ ids' x = o.gid ∧ x < n) := by
    intro x hx
    by_cases hz : o.ids x = 0
    · have hz' : upd o.ids i o.gid x = 0 := by rw [upd_other _ _ hx]; exact hz
      rcases hnew x hz' with h1 | h1
      · left; rw [h1, hz]
      · right; exact ⟨hz, h1.1, h1.2⟩
    · left
      have := hmono x (by rw [upd_other _ _ hx]; exact hz)
      rw [this, upd_other _ _ hx]
  refine ⟨ids', size', hr, ?_, hother, hI.conn, hrow, ?_⟩
  · have := hmono i (by rw [upd_same]; exact hg)
    rw [this, upd_same]
  · intro hs x hx
    rcases hother x hx with h1 | ⟨hz, _, hxn⟩
    · exact h1
    · have hun := nz_eq_unchanged hmono n (by omega) x hxn (by rw [upd_other _ _ hx]; exact hz)
      rw [hun, hz]

/-! ## the invariant of the outer loop on clique-structured matrices -/

structure JInv (M : Mat) (md n i : Nat) (o : Out) : Prop where
  same_edge : ∀ a b, a < n → b < n → a ≠ b → o.ids a ≠ 0 → o.ids a = o.ids b → M a b = md
  edge_same : ∀ a b, a < n → b < n → a ≠ b → M a b = md → o.ids a ≠ 0 → o.ids b = o.ids a
  isolated : ∀ a, a < i → o.ids a = 0 → ∀ b, b < n → b ≠ a → M a b ≠ md

section clique
variable (M : Mat) (md n : Nat)
variable (hsym : ∀ a b, a < n → b < n → M a b = md → M b a = md)
variable (htr : ∀ a b c, a < n → b < n → c < n → a ≠ c → M a b = md → M b c = md → M a c = md)
include hsym htr

theorem outerStep_J (i : Nat) (hi : i < n) (o : Out) (h : OInv M md n o) (hJ : JInv M md n i o) :
    JInv M md n (i + 1) (outerStep M md n i o) := by
  unfold outerStep
  by_cases h0 : o.ids i ≠ 0
  · rw [if_pos h0]
    refine ⟨hJ.same_edge, hJ.edge_same, ?_⟩
    intro a ha ha0
    by_cases hai : a = i
    · subst hai; exact absurd ha0 h0
    · exact hJ.isolated a (by omega) ha0
  · rw [if_neg h0]
    have h0 : o.ids i = 0 := Decidable.not_not.mp h0
    have hg : o.gid ≠ 0 := by have := h.gpos; omega
    obtain ⟨ids', size', hgrow, hii, hother, hconn, hrow, hone⟩ :=
      step_facts M md n i hi o h h0 (fun x => x = i ∨ (x < n ∧ M i x = md))
        (by
          intro j k hj hk hCj hm
          by_cases hki : k = i
          · exact Or.inl hki
          · right; refine ⟨hk, ?_⟩
            rcases hCj with hji | ⟨_, hij⟩
            · subst hji; exact hm
            · exact htr i j k hi hj hk (fun e => hki e.symm) hij hm)
        (Or.inl rfl)
    rw [hgrow]
    -- the minimal neighbours of `i` were not grouped before
    have hN : ∀ b, b < n → b ≠ i → M i b = md → o.ids b = 0 := by
      intro b hb hbi hm
      by_cases hz : o.ids b = 0
      · exact hz
      · have := hJ.edge_same b i hb hi hbi (hsym i b hi hb hm) hz
        rw [h0] at this; exact absurd this.symm hz
    show JInv M md n (i + 1) (if size' = 1 then ⟨upd ids' i 0, o.gid, o.skipped + 1⟩ else ⟨ids', o.gid + 1, o.skipped⟩)
    by_cases hs : size' = 1
    · rw [if_pos hs]
      have hfe : upd ids' i 0 = o.ids := by
        funext x
        by_cases hx : x = i
        · subst hx; rw [upd_same, h0]
        · rw [upd_other _ _ hx]; exact hone hs x hx
      refine ⟨by rw [hfe]; exact hJ.same_edge, by rw [hfe]; exact hJ.edge_same, ?_⟩
      intro a ha ha0 b hb hba hm
      rw [hfe] at ha0
      by_cases hai : a = i
      · subst hai
        have h1 := hrow b hb hm
        rw [hone hs b hba, hN b hb hba hm] at h1
        exact h1 rfl
      · exact hJ.isolated a (by omega) ha0 b hb hba hm
    · rw [if_neg hs]
      -- members of the new group are `i` and minimal neighbours of `i`
      have hmem : ∀ x, ids' x = o.gid → x ≠ i → x < n ∧ M i x = md := by
        intro x hx hxi
        rcases hconn x hx with h1 | h1
        · exact absurd h1 hxi
        · exact h1
      have hold : ∀ x, ids' x ≠ 0 → ids' x ≠ o.gid → x ≠ i ∧ o.ids x = ids' x := by
        intro x hx0 hxg
        have hxi : x ≠ i := by intro e; subst e; exact hxg hii
        rcases hother x hxi with h1 | ⟨_, h1, _⟩
        · exact ⟨hxi, h1.symm⟩
        · exact absurd h1 hxg
      refine ⟨?_, ?_, ?_⟩
      · intro a b ha hb hab ha0 hsame
        show M a b = md
        have ha0 : ids' a ≠ 0 := ha0
        have hsame : ids' a = ids' b := hsame
        by_cases hag : ids' a = o.gid
        · have hbg : ids' b = o.gid := by rw [← hsame]; exact hag
          by_cases hai : a = i
          · subst hai; exact (hmem b hbg (fun e => hab e.symm)).2
          · by_cases hbi : b = i
            · subst hbi; exact hsym b a hb ha (hmem a hag hai).2
            · exact htr a i b ha hi hb hab (hsym i a hi ha (hmem a hag hai).2) (hmem b hbg hbi).2
        · obtain ⟨_, hoa⟩ := hold a ha0 hag
          obtain ⟨_, hob⟩ := hold b (by rw [← hsame]; exact ha0) (by rw [← hsame]; exact hag)
          exact hJ.same_edge a b ha hb hab (by rw [hoa]; exact ha0) (by rw [hoa, hob]; exact hsame)
      · intro a b ha hb hab hm ha0
        show ids' b = ids' a
        have ha0 : ids' a ≠ 0 := ha0
        -- a minimal neighbour of `i` (other than `i`) is in the new group
        have hin : ∀ x, x < n → x ≠ i → M i x = md → ids' x = o.gid := by
          intro x hx hxi hmx
          rcases hother x hxi with h1 | ⟨_, h1, _⟩
          · have := hrow x hx hmx
            rw [h1, hN x hx hxi hmx] at this; exact absurd rfl this
          · exact h1
        by_cases hag : ids' a = o.gid
        · rw [hag]
          by_cases hbi : b = i
          · subst hbi; exact hii
          · by_cases hai : a = i
            · subst hai; exact hin b hb hbi hm
            · exact hin b hb hbi (htr i a b hi ha hb (fun e => hbi e.symm) (hmem a hag hai).2 hm)
        · obtain ⟨hai, hoa⟩ := hold a ha0 hag
          have hob := hJ.edge_same a b ha hb hab hm (by rw [hoa]; exact ha0)
          have hbi : b ≠ i := by
            intro e; subst e
            rw [h0] at hob; rw [hoa] at hob; exact ha0 hob.symm
          rcases hother b hbi with h1 | ⟨hz, _, _⟩
          · rw [h1, hob, hoa]
          · rw [hz] at hob; rw [hoa] at hob; exact absurd hob.symm ha0
      · intro a ha ha0 b hb hba hm
        have ha0 : ids' a = 0 := ha0
        by_cases hai : a = i
        · subst hai; rw [hii] at ha0; exact hg ha0
        · rcases hother a hai with h1 | ⟨_, h1, _⟩
          · exact hJ.isolated a (by omega) (by rw [← h1]; exact ha0) b hb hba hm
          · rw [h1] at ha0; exact hg ha0

theorem outer_J : ∀ (f i : Nat) (o : Out), i + f ≤ n → OInv M md n o → JInv M md n i o →
    JInv M md n (i + f) (outer M md n f i o)
  | 0, _, _, _, _, hJ => hJ
  | f+1, i, o, hb, h, hJ => by
    have := outer_J f (i+1) _ (by omega) (outerStep_inv M md n i (by omega) o h)
      (outerStep_J M md n hsym htr i (by omega) o h hJ)
    rw [show i + (f + 1) = i + 1 + f by omega]
    exact this

end clique

theorem findGroups_ids (M : Mat) (n : Nat) (hnb : (findGroups M n).1 ≠ 0) :
    (findGroups M n).2 = (outer M (minDist M n) n n 0 outInit).ids := by
  unfold findGroups at hnb ⊢
  by_cases h1 : minDist M n = U64MAX
  · rw [if_pos h1] at hnb; exact absurd rfl hnb
  · rw [if_neg h1]
    simp only
    split <;> rfl

/-- **closure characterisation on clique-structured matrices**: when "the cell is minimal" is symmetric and transitive among the `n`
objects, two distinct objects get the same non-zero id iff their cell is minimal, and an object gets no id iff none of its cells is -/
theorem findGroups_clique (M : Mat) (n : Nat) (hnb : (findGroups M n).1 ≠ 0)
    (hsym : ∀ a b, a < n → b < n → M a b = minDist M n → M b a = minDist M n)
    (htr : ∀ a b c, a < n → b < n → c < n → a ≠ c → M a b = minDist M n → M b c = minDist M n → M a c = minDist M n) :
    (∀ a b, a < n → b < n → a ≠ b →
      (((findGroups M n).2 a = (findGroups M n).2 b ∧ (findGroups M n).2 a ≠ 0) ↔ M a b = minDist M n)) ∧
    (∀ a, a < n → ((findGroups M n).2 a = 0 ↔ ∀ b, b < n → b ≠ a → M a b ≠ minDist M n)) := by
  rw [findGroups_ids M n hnb]
  have hO := outer_final M n
  have hJ := outer_J M (minDist M n) n hsym htr n 0 outInit (by omega) (OInv.init M _ n)
    ⟨fun a b _ _ _ h => absurd rfl h, fun a b _ _ _ _ h => absurd rfl h, fun a ha => by omega⟩
  rw [Nat.zero_add] at hJ
  refine ⟨?_, ?_⟩
  · intro a b ha hb hab
    constructor
    · intro ⟨h1, h2⟩; exact hJ.same_edge a b ha hb hab h2 h1
    · intro hm
      by_cases hz : (outer M (minDist M n) n n 0 outInit).ids a = 0
      · exact absurd hm (hJ.isolated a ha hz b hb (fun e => hab e.symm))
      · exact ⟨(hJ.edge_same a b ha hb hab hm hz).symm, hz⟩
  · intro a ha
    constructor
    · intro hz; exact hJ.isolated a ha hz
    · intro hiso
      by_cases hz : (outer M (minDist M n) n n 0 outInit).ids a = 0
      · exact hz
      · have hlt := hO.bound a
        obtain ⟨x, y, hxy, hx, hy⟩ := hO.two _ (Nat.pos_of_ne_zero hz) hlt
        have hxn : x < n := by
          by_cases hh : x < n
          · exact hh
          · have := hO.out x (by omega); omega
        have hyn : y < n := by
          by_cases hh : y < n
          · exact hh
          · have := hO.out y (by omega); omega
        -- another member of the class of `a`
        by_cases hxa : x = a
        · subst hxa
          exact absurd (hJ.same_edge x y ha hyn hxy hz (by rw [hx, hy])) (hiso y hyn (fun e => hxy e.symm))
        · exact absurd (hJ.same_edge a x ha hxn (fun e => hxa e.symm) hz (by rw [hx])) (hiso x hxn hxa)

end Hw.Grouping
