/-
  Hw.Attr.MemAttrs — model of hwloc/memattrs.c lines 17–1315 (memory attributes, local NUMA nodes,
  default nodeset).  Core Lean only.

  Representation:
  * cpusets are `Nat` bit masks over PU os_indexes (finite sets; the C03 refinement relates them to
    `hwloc_bitmap_t`), `subset a b` = `hwloc_bitmap_isincluded(a,b)`;
  * the topology is an *environment* `Env` (root cpuset, all objects with type / gp_index / os_index /
    cpuset, the NUMA level in logical order); `hwloc_topology_restrict` is an environment change followed
    by `needRefresh` (what objects survive a restrict is property C08's business, not C14's);
  * the attribute table is `List Attr` (index = `hwloc_memattr_id_t`), targets and initiators are lists
    in storage order (the C arrays), found by first match exactly as the C loops do.

  Not modelled: allocation failure, `target_gp_index == -1` (only used by OS backends during discovery),
  memory-tier guessing.
-/
namespace Hw.MemAttrs

/-! ## sets -/

/-- `hwloc_bitmap_isincluded(a, b)` on finite masks -/
def subset (a b : Nat) : Bool := a &&& b == a

/-- `hwloc_bitmap_weight` on a finite mask -/
def weight (m : Nat) : Nat := (List.range (m.log2 + 1)).countP (fun i => m.testBit i)

/-! ## environment (the topology as seen by memattrs.c) -/

structure Obj where
  type : Nat                 -- hwloc_obj_type_t
  gp : Nat                   -- gp_index
  os : Option Nat            -- os_index, none = (unsigned)-1
  cpuset : Option Nat        -- obj->cpuset, none = NULL (Misc, I/O)
  effCpuset : Nat            -- cpuset of the first ancestor-or-self that has one
  mem : Nat                  -- attr->numanode.local_memory (NUMA nodes)
  subtype : Option String    -- obj->subtype
  deriving DecidableEq, Repr, Inhabited

structure Env where
  numaType : Nat             -- HWLOC_OBJ_NUMANODE
  root : Nat                 -- levels[0][0]->cpuset
  objs : List Obj            -- every object of the topology
  nodes : List Obj           -- the NUMA level, logical order
  deriving DecidableEq, Repr, Inhabited

/-- `hwloc_get_obj_by_type_and_gp_index(topology, type, gp) != NULL` -/
def Env.hasObj (e : Env) (type gp : Nat) : Bool := e.objs.any (fun o => o.type == type && o.gp == gp)

/-! ## attribute table -/

inductive Err | EINVAL | ENOENT | EBUSY
  deriving DecidableEq, Repr, Inhabited

/-- internal location (`struct hwloc_internal_location_s`) -/
inductive Loc
  | cpuset (m : Nat)
  | obj (type gp : Nat)
  deriving DecidableEq, Repr, Inhabited

structure Init where
  loc : Loc
  value : Nat
  deriving DecidableEq, Repr, Inhabited

structure Target where
  type : Nat
  gp : Nat
  os : Option Nat            -- none = (unsigned)-1 (targets imported from XML)
  inits : List Init
  noinit : Nat
  deriving DecidableEq, Repr, Inhabited

structure Attr where
  name : String
  flags : Nat                -- HIGHER_FIRST = 1, LOWER_FIRST = 2, NEED_INITIATOR = 4
  conv : Bool                -- HWLOC_IMATTR_FLAG_CONVENIENCE
  valid : Bool               -- HWLOC_IMATTR_FLAG_CACHE_VALID
  targets : List Target
  deriving DecidableEq, Repr, Inhabited

abbrev Table := List Attr

def Attr.higher (a : Attr) : Bool := a.flags.testBit 0
def Attr.needInit (a : Attr) : Bool := a.flags.testBit 2

def mkDefault (name : String) (flags : Nat) (conv : Bool) : Attr :=
  { name, flags, conv, valid := true, targets := [] }

/-- `hwloc_internal_memattrs_prepare` followed by the refresh at the end of load -/
def defaults : Table :=
  [ mkDefault "Capacity" 1 true, mkDefault "Locality" 2 true,
    mkDefault "Bandwidth" 5 false, mkDefault "Latency" 6 false,
    mkDefault "ReadBandwidth" 5 false, mkDefault "WriteBandwidth" 5 false,
    mkDefault "ReadLatency" 6 false, mkDefault "WriteLatency" 6 false ]

/-- `hwloc_memattr_register` -/
def register (tbl : Table) (name : String) (flags : Nat) : Table × Except Err Nat :=
  if flags / 8 ≠ 0 then (tbl, .error .EINVAL)
  else if !(flags.testBit 0 || flags.testBit 1) then (tbl, .error .EINVAL)
  else if flags.testBit 0 && flags.testBit 1 then (tbl, .error .EINVAL)
  else if tbl.any (fun a => a.name == name) then (tbl, .error .EBUSY)
  else (tbl ++ [{ name, flags, conv := false, valid := true, targets := [] }], .ok tbl.length)

/-- `hwloc_memattr_get_by_name` -/
def getByName (tbl : Table) (name : String) : Option Nat := tbl.findIdx? (fun a => a.name == name)

/-! ## locations -/

/-- the `struct hwloc_location *` argument of the public calls, as the library sees it -/
inductive LocArg
  | null                               -- NULL pointer
  | cpuset (m : Option Nat)            -- type CPUSET, none = NULL bitmap
  | obj (o : Option (Nat × Nat))       -- type OBJECT (type, gp), none = NULL object
  | badType                            -- any other `type` value
  deriving DecidableEq, Repr, Inhabited

/-- `to_internal_location`; `none` = EINVAL -/
def toInternal : LocArg → Option Loc
  | .cpuset (some m) => if m == 0 then none else some (.cpuset m)
  | .obj (some (t, g)) => some (.obj t g)
  | _ => none

/-- `match_internal_location(query, stored)` -/
def matchLoc (q s : Loc) : Bool :=
  match q, s with
  | .cpuset a, .cpuset b => subset a b
  | .obj t g, .obj t' g' => t == t' && g == g'
  | _, _ => false

/-- `hwloc__memattr_target_get_initiator(imtg, iloc, 0)` -/
def findInit (q : Loc) (is : List Init) : Option Init := is.find? (fun i => matchLoc q i.loc)

/-- `hwloc__memattr_target_get_initiator(imtg, iloc, 1)` followed by `imi->value = v` -/
def setInit (q : Loc) (v : Nat) : List Init → List Init
  | [] => [⟨q, v⟩]
  | i :: is => if matchLoc q i.loc then ⟨i.loc, v⟩ :: is else i :: setInit q v is

/-- the test inside `hwloc__memattr_get_target` -/
def matchTarget (type gp : Nat) (os : Option Nat) (t : Target) : Bool :=
  type == t.type && (gp == t.gp || (match os, t.os with | some a, some b => a == b | _, _ => false))

def findTarget (type gp : Nat) (os : Option Nat) (ts : List Target) : Option Target :=
  ts.find? (matchTarget type gp os)

/-- `hwloc__memattr_get_target(..., create=1)` followed by an update `f` of the found/created slot -/
def updTarget (type gp : Nat) (os : Option Nat) (f : Target → Target) : List Target → List Target
  | [] => [f { type, gp, os, inits := [], noinit := 0 }]
  | t :: ts => if matchTarget type gp os t then f t :: ts else t :: updTarget type gp os f ts

/-! ## refresh -/

/-- `hwloc__imi_refresh` -/
def refreshInit (e : Env) (i : Init) : Option Init :=
  match i.loc with
  | .cpuset c => if c &&& e.root == 0 then none else some ⟨.cpuset (c &&& e.root), i.value⟩
  | .obj t g => if e.hasObj t g then some i else none

/-- `hwloc__imtg_refresh` -/
def refreshTarget (e : Env) (needInit : Bool) (t : Target) : Option Target :=
  if e.hasObj t.type t.gp then
    if needInit then
      let is := t.inits.filterMap (refreshInit e)
      if is.isEmpty then none else some { t with inits := is }
    else some t
  else none

/-- `hwloc__imattr_refresh` -/
def refreshAttr (e : Env) (a : Attr) : Attr :=
  { a with targets := a.targets.filterMap (refreshTarget e a.needInit), valid := true }

/-- `if (!(iflags & CACHE_VALID)) hwloc__imattr_refresh(...)` -/
def ensureValid (e : Env) (a : Attr) : Attr := if a.valid then a else refreshAttr e a

/-- `hwloc_internal_memattrs_need_refresh` (called by restrict) -/
def needRefresh (tbl : Table) : Table := tbl.map (fun a => if a.conv then a else { a with valid := false })

/-- `hwloc_internal_memattrs_refresh` (`hwloc_topology_refresh`, end of load) -/
def refreshAll (e : Env) (tbl : Table) : Table := tbl.map (ensureValid e)

/-- `hwloc_internal_memattrs_dup` -/
def dup (tbl : Table) : Table := tbl.map (fun a => { a with valid := false })

/-! ## values -/

/-- `hwloc__memattr_get_convenience_value` -/
def convValue (e : Env) (id : Nat) (o : Obj) : Except Err Nat :=
  if id == 0 then (if o.type == e.numaType then .ok o.mem else .error .EINVAL)
  else match o.cpuset with
    | some c => .ok (weight c)
    | none => .error .EINVAL

/-- value of `target` for a (possibly NULL) initiator argument, `none` = "no such entry"
(`hwloc__memattr_get_initiator_from_location` returning NULL) -/
def targetValue (needInit : Bool) (init : LocArg) (t : Target) : Option Nat :=
  if needInit then
    match toInternal init with
    | none => none
    | some q => (findInit q t.inits).map (·.value)
  else some t.noinit

/-- `hwloc_memattr_get_value` -/
def getValue (e : Env) (tbl : Table) (id : Nat) (tgt : Option Obj) (init : LocArg) (flags : Nat) :
    Table × Except Err Nat :=
  match tgt with
  | none => (tbl, .error .EINVAL)
  | some o =>
    if flags ≠ 0 then (tbl, .error .EINVAL) else
    match tbl[id]? with
    | none => (tbl, .error .EINVAL)
    | some a =>
      if a.conv then (tbl, convValue e id o) else
      let a' := ensureValid e a
      let tbl' := tbl.set id a'
      match findTarget o.type o.gp o.os a'.targets with
      | none => (tbl', .error .EINVAL)
      | some t =>
        match targetValue a'.needInit init t with
        | none => (tbl', .error .EINVAL)
        | some v => (tbl', .ok v)

/-- the slot update performed by `hwloc__internal_memattr_set_value` -/
def setSlot (needInit : Bool) (q : Option Loc) (v : Nat) (t : Target) : Target :=
  if needInit then
    match q with
    | some q => { t with inits := setInit q v t.inits }
    | none => t
  else { t with noinit := v }

/-- `hwloc__internal_memattr_set_value` on one attribute (after the argument checks);
`loaded` = `HWLOC_TOPOLOGY_STATE_IS_LOADED` -/
def setAttr (e : Env) (loaded : Bool) (a : Attr) (type gp : Nat) (os : Option Nat) (q : Option Loc) (v : Nat) : Attr :=
  let a' := if loaded then ensureValid e a else a
  let created := (findTarget type gp os a'.targets).isNone
  { a' with targets := updTarget type gp os (setSlot a'.needInit q v) a'.targets,
            valid := a'.valid && !created }

/-- `hwloc_memattr_set_value` (public entry point, topology loaded) -/
def setValue (e : Env) (tbl : Table) (id : Nat) (tgt : Option Obj) (init : LocArg) (flags : Nat) (v : Nat) :
    Table × Except Err Unit :=
  match tgt with
  | none => (tbl, .error .EINVAL)
  | some o =>
    if flags ≠ 0 then (tbl, .error .EINVAL) else
    if init ≠ .null && (toInternal init).isNone then (tbl, .error .EINVAL) else
    match tbl[id]? with
    | none => (tbl, .error .EINVAL)
    | some a =>
      if a.needInit && init == .null then (tbl, .error .EINVAL) else
      if a.conv then (tbl, .error .EINVAL) else
      (tbl.set id (setAttr e true a o.type o.gp o.os (toInternal init) v), .ok ())

/-! ## enumeration -/

/-- all (target gp_index, value) pairs `hwloc_memattr_get_targets` iterates over, in order -/
def matchingTargets (a : Attr) (init : LocArg) : List (Nat × Nat) :=
  a.targets.filterMap (fun t =>
    if a.needInit then
      (if init == .null then some (t.gp, 0)
       else (targetValue true init t).map (fun v => (t.gp, v)))
    else some (t.gp, t.noinit))

/-- convenience attributes: every NUMA node with its convenience value -/
def convTargets (e : Env) (id : Nat) : List (Nat × Nat) :=
  e.nodes.map (fun n => (n.gp, match convValue e id n with | .ok v => v | .error _ => 0))

/-- `hwloc_memattr_get_targets`: returns (`*nrp` on return, the entries written to the caller arrays).
`max` = `*nrp` on entry, `arrNull` = the `targets` array pointer is NULL -/
def getTargets (e : Env) (tbl : Table) (id : Nat) (init : LocArg) (flags max : Nat) (arrNull : Bool) :
    Table × Except Err (Nat × List (Nat × Nat)) :=
  if flags ≠ 0 then (tbl, .error .EINVAL) else
  if max ≠ 0 && arrNull then (tbl, .error .EINVAL) else
  match tbl[id]? with
  | none => (tbl, .error .EINVAL)
  | some a =>
    if a.conv then
      let all := convTargets e id
      (tbl, .ok (all.length, all.take max))
    else
      let a' := ensureValid e a
      let all := matchingTargets a' init
      (tbl.set id a', .ok (all.length, all.take max))

/-- `hwloc_memattr_get_initiators` -/
def getInitiators (e : Env) (tbl : Table) (id : Nat) (tgt : Option Obj) (flags max : Nat) (arrNull : Bool) :
    Table × Except Err (Nat × List Init) :=
  match tgt with
  | none => (tbl, .error .EINVAL)
  | some o =>
    if flags ≠ 0 then (tbl, .error .EINVAL) else
    if max ≠ 0 && arrNull then (tbl, .error .EINVAL) else
    match tbl[id]? with
    | none => (tbl, .error .EINVAL)
    | some a =>
      if !a.needInit then (tbl, .ok (0, [])) else
      let a' := ensureValid e a
      let tbl' := tbl.set id a'
      match findTarget o.type o.gp o.os a'.targets with
      | none => (tbl', .error .EINVAL)
      | some t => (tbl', .ok (t.inits.length, t.inits.take max))

/-! ## best-of queries -/

/-- `hwloc__update_best_target` / `hwloc__update_best_initiator`: strict improvement only -/
def bestStep {α : Type} (higher : Bool) (best : Option (α × Nat)) (x : α × Nat) : Option (α × Nat) :=
  match best with
  | none => some x
  | some b => if higher then (if x.2 ≤ b.2 then some b else some x)
              else (if x.2 ≥ b.2 then some b else some x)

def bestOf {α : Type} (higher : Bool) (l : List (α × Nat)) : Option (α × Nat) :=
  l.foldl (bestStep higher) none

/-- `hwloc_memattr_get_best_target` -/
def bestTarget (e : Env) (tbl : Table) (id : Nat) (init : LocArg) (flags : Nat) :
    Table × Except Err (Nat × Nat) :=
  if flags ≠ 0 then (tbl, .error .EINVAL) else
  match tbl[id]? with
  | none => (tbl, .error .EINVAL)
  | some a =>
    if a.conv then
      match bestOf a.higher (convTargets e id) with
      | some r => (tbl, .ok r)
      | none => (tbl, .error .ENOENT)
    else
      let a' := ensureValid e a
      let cands := a'.targets.filterMap (fun t => (targetValue a'.needInit init t).map (fun v => (t.gp, v)))
      match bestOf a'.higher cands with
      | some r => (tbl.set id a', .ok r)
      | none => (tbl.set id a', .error .ENOENT)

/-- `hwloc_memattr_get_best_initiator` -/
def bestInitiator (e : Env) (tbl : Table) (id : Nat) (tgt : Option Obj) (flags : Nat) :
    Table × Except Err (Loc × Nat) :=
  match tgt with
  | none => (tbl, .error .EINVAL)
  | some o =>
    if flags ≠ 0 then (tbl, .error .EINVAL) else
    match tbl[id]? with
    | none => (tbl, .error .EINVAL)
    | some a =>
      if !a.needInit then (tbl, .error .EINVAL) else
      let a' := ensureValid e a
      let tbl' := tbl.set id a'
      match findTarget o.type o.gp o.os a'.targets with
      | none => (tbl', .error .EINVAL)
      | some t =>
        match bestOf a'.higher (t.inits.map (fun i => (i.loc, i.value))) with
        | some r => (tbl', .ok r)
        | none => (tbl', .error .ENOENT)

/-! ## local NUMA nodes -/

/-- the location argument of `hwloc_get_local_numanode_objs` after resolving an object to the cpuset
of its first ancestor-or-self that has one -/
inductive LocalArg
  | null
  | cpuset (m : Nat)
  | badType
  deriving DecidableEq, Repr, Inhabited

/-- `match_local_obj_cpuset`; flags: LARGER = 1, SMALLER = 2, ALL = 4 -/
def matchLocal (flags : Nat) (cs : Nat) (node : Obj) : Bool :=
  let nc := node.cpuset.getD 0
  flags.testBit 2 || (flags.testBit 0 && subset cs nc) || (flags.testBit 1 && subset nc cs) || nc == cs

/-- `hwloc_get_local_numanode_objs`: (`*nrp` on return, nodes written) -/
def localNodes (e : Env) (loc : LocalArg) (flags max : Nat) (arrNull : Bool) : Except Err (Nat × List Obj) :=
  if flags / 8 ≠ 0 then .error .EINVAL else
  if max ≠ 0 && arrNull then .error .EINVAL else
  match loc with
  | .badType => .error .EINVAL
  | .null =>
    if !flags.testBit 2 then .error .EINVAL
    else .ok (e.nodes.length, e.nodes.take max)      -- ALL: every node matches
  | .cpuset cs =>
    let all := e.nodes.filter (matchLocal flags cs)
    .ok (all.length, all.take max)

/-! ## default nodeset -/

/-- insertion of one node into a list sorted by os_index (`qsort` with `compare_nodes_by_os_index`;
NUMA os_indexes are distinct so the order is determined) -/
def insertByOs (n : Obj) : List Obj → List Obj
  | [] => [n]
  | m :: ms => if n.os.getD 0 ≤ m.os.getD 0 then n :: m :: ms else m :: insertByOs n ms

def sortByOs (l : List Obj) : List Obj := l.foldr insertByOs []

structure DnsState where
  nodeset : Nat          -- bits = os_indexes taken
  chosen : List Obj      -- ghost: the nodes taken, most recent first
  remaining : Nat        -- remainingcpuset
  done : Bool            -- `goto done` taken
  deriving Repr, Inhabited

def DnsState.take (s : DnsState) (n : Obj) : DnsState :=
  { s with nodeset := s.nodeset ||| (1 <<< n.os.getD 0), chosen := n :: s.chosen,
           remaining := s.remaining ^^^ (s.remaining &&& n.cpuset.getD 0) }

/-- one iteration of the first loop (same subtype, non-overlapping, may be empty) -/
def dnsPass1 (first : Option String) (s : DnsState) (n : Obj) : DnsState :=
  if s.done then s else
  if n.subtype ≠ first then s else
  let s' := if subset (n.cpuset.getD 0) s.remaining then s.take n else s
  { s' with done := s'.remaining == 0 }

/-- one iteration of the second loop (`i` = index in the sorted array; note that the "already taken"
test looks at bit `i` of the nodeset, i.e. compares an array index with os_indexes, as the C does) -/
def dnsPass2 (s : DnsState) (in_ : Nat × Obj) : DnsState :=
  if s.done then s else
  if s.nodeset.testBit in_.1 then s else
  let n := in_.2
  let s' := if subset (n.cpuset.getD 0) s.remaining && n.cpuset.getD 0 != 0 then s.take n else s
  { s' with done := s'.remaining == 0 }

def enumFrom1 (l : List Obj) : List (Nat × Obj) := (List.range l.length).zip l |>.map (fun p => (p.1 + 1, p.2))

/-- `hwloc_topology_get_default_nodeset` (flags = 0) on a topology with at least one NUMA node -/
def defaultNodesetState (e : Env) : DnsState :=
  match sortByOs e.nodes with
  | [] => { nodeset := 0, chosen := [], remaining := e.root, done := true }
  | n0 :: rest =>
    let s0 : DnsState := DnsState.take { nodeset := 0, chosen := [], remaining := e.root, done := false } n0
    let s1 := rest.foldl (dnsPass1 n0.subtype) s0
    (enumFrom1 rest).foldl dnsPass2 s1

def defaultNodeset (e : Env) (flags : Nat) : Except Err Nat :=
  if flags ≠ 0 then .error .EINVAL else .ok (defaultNodesetState e).nodeset

/-! ## XML export + import (`hwloc__xml_export_memattrs`, `hwloc__xml_import_memattr`) -/

/-- replay of the `<memattr_value>` children of one exported attribute into attribute `a`
(load mode: no refresh; targets are imported with os_index = -1) -/
def importValues (e : Env) (src : Attr) (a : Attr) : Attr :=
  src.targets.foldl (fun a t =>
    if src.needInit then
      t.inits.foldl (fun a i => setAttr e false a t.type t.gp none (some i.loc) i.value) a
    else setAttr e false a t.type t.gp none none t.noinit) a

/-- import one exported `<memattr>` element -/
def importAttr (e : Env) (tbl : Table) (src : Attr) : Table :=
  match getByName tbl src.name with
  | some id =>
    match tbl[id]? with
    | some a => if a.flags == src.flags then tbl.set id (importValues e src a) else tbl
    | none => tbl
  | none =>
    match register tbl src.name src.flags with
    | (tbl', .ok id) =>
      (match tbl'[id]? with
       | some a => tbl'.set id (importValues e src a)
       | none => tbl')
    | (tbl', .error _) => tbl'

/-- the attributes `hwloc__xml_export_memattrs` writes: not Capacity/Locality, and the six other
standard ones only when they have targets -/
def exported (tbl : Table) : List Attr :=
  ((List.range tbl.length).zip tbl).filterMap (fun p =>
    if p.1 < 2 then none else if p.1 < 8 && p.2.targets.isEmpty then none else some p.2)

/-- export `src` to XML, load the XML as a new topology with environment `e` -/
def xmlRoundTrip (e : Env) (src : Table) : Table :=
  refreshAll e (needRefresh ((exported src).foldl (importAttr e) (defaults.map (fun a => { a with valid := false }))))

end Hw.MemAttrs
