/- Hw.Attr.DiffBuildApply — apply ∘ build over whole trees.
   1. a representable pair of trees is diffed object by object along the two DFS orders
      (`diffTrees x y = pairsDiff (zip x.flat y.flat)`);
   2. the entries of one pair of objects apply in order and change the tree by `ownFun a b`;
   3. so the whole diff applies and changes the tree by `GG (zip A.flat B.flat)`, whose fields are computed;
   4. the entries of a built diff address pairwise distinct attributes. -/
import Hw.Attr.DiffSlots
namespace Hw.Diff
set_option linter.unusedSectionVars false
variable {σ : Type} [DecidableEq σ]

/-! ### 1. diffTrees on a representable pair is a flat map over the paired DFS orders -/

/-- the entries hwloc_diff_trees queues for one pair of objects (diff.c:161-235) -/
def ownDiff (a b : Data σ) : List (Entry σ) :=
  nameDiff a b ++ (sizeDiff a b ++ (infosGo a.key a.infos b.infos).1)

def pairsDiff (P : List (Data σ × Data σ)) : List (Entry σ) := P.flatMap (fun p => ownDiff p.1 p.2)

theorem pairsDiff_cons (p : Data σ × Data σ) (P : List (Data σ × Data σ)) :
    pairsDiff (p :: P) = ownDiff p.1 p.2 ++ pairsDiff P := by simp [pairsDiff]

theorem pairsDiff_append (P Q : List (Data σ × Data σ)) : pairsDiff (P ++ Q) = pairsDiff P ++ pairsDiff Q := by
  simp [pairsDiff]

mutual
theorem Rel_flat_length {R : Data σ → Data σ → Prop} : ∀ (x y : Obj σ), x.Rel R y → x.flat.length = y.flat.length
  | .mk a a0 a1 a2 a3, .mk b b0 b1 b2 b3 => by
    intro h
    unfold Obj.Rel at h
    simp only [Obj.flat, List.length_cons, List.length_append, RelL_flat_length a0 b0 h.2.1,
      RelL_flat_length a1 b1 h.2.2.1, RelL_flat_length a2 b2 h.2.2.2.1, RelL_flat_length a3 b3 h.2.2.2.2]
theorem RelL_flat_length {R : Data σ → Data σ → Prop} : ∀ (l1 l2 : List (Obj σ)), RelL R l1 l2 →
    (flatL l1).length = (flatL l2).length
  | [], [] => by simp [flatL]
  | _ :: _, [] => by simp [RelL]
  | [], _ :: _ => by simp [RelL]
  | x :: xs, y :: ys => by
    intro h
    unfold RelL at h
    simp only [flatL, List.length_append, Rel_flat_length x y h.1, RelL_flat_length xs ys h.2]
end

/-- the DFS pairing of two trees of the same shape -/
def Obj.pairs (x y : Obj σ) : List (Data σ × Data σ) := x.flat.zip y.flat
def pairsL (l1 l2 : List (Obj σ)) : List (Data σ × Data σ) := (flatL l1).zip (flatL l2)

theorem pairs_mk {R : Data σ → Data σ → Prop} {a b : Data σ} {a0 a1 a2 a3 b0 b1 b2 b3 : List (Obj σ)}
    (h0 : RelL R a0 b0) (h1 : RelL R a1 b1) (h2 : RelL R a2 b2) :
    (Obj.mk a a0 a1 a2 a3).pairs (Obj.mk b b0 b1 b2 b3) =
      (a, b) :: (pairsL a0 b0 ++ (pairsL a1 b1 ++ (pairsL a2 b2 ++ pairsL a3 b3))) := by
  simp only [Obj.pairs, pairsL, Obj.flat, List.zip_cons_cons]
  rw [List.zip_append (RelL_flat_length _ _ h0), List.zip_append (RelL_flat_length _ _ h1),
    List.zip_append (RelL_flat_length _ _ h2)]

theorem pairsL_cons {R : Data σ → Data σ → Prop} {x y : Obj σ} {xs ys : List (Obj σ)} (h : x.Rel R y) :
    pairsL (x :: xs) (y :: ys) = x.pairs y ++ pairsL xs ys := by
  simp only [pairsL, Obj.pairs, flatL]
  rw [List.zip_append (Rel_flat_length _ _ h)]

theorem stage_true (k : Key) (l next : List (Entry σ)) : stage k (l, true) next = l ++ next := by
  simp [stage]

mutual
theorem diffTrees_flat : ∀ (x y : Obj σ), x.Rel dataRepr y → diffTrees x y = pairsDiff (x.pairs y)
  | .mk a a0 a1 a2 a3, .mk b b0 b1 b2 b3 => by
    intro h
    have h' := h
    unfold Obj.Rel at h'
    obtain ⟨⟨hd, hs1, hnm, hs2, hin⟩, r0, r1, r2, r3⟩ := h'
    have e0 := diffKids_flat a0 b0 r0
    have e1 := diffKids_flat a1 b1 r1
    have e2 := diffKids_flat a2 b2 r2
    have e3 := diffKids_flat a3 b3 r3
    have hc : ¬ (a.depth ≠ b.depth ∨ a.shape1 ≠ b.shape1 ∨ a.name.isSome ≠ b.name.isSome) := by
      simp [hd, hs1, hnm]
    have hlen : a.infos.length = b.infos.length := by simpa using congrArg List.length hin
    have hi : infosDiff a.key a.infos b.infos = ((infosGo a.key a.infos b.infos).1, true) := by
      unfold infosDiff
      simp only [hlen, ne_eq, not_true_eq_false, if_false]
      exact Prod.ext rfl ((infosGo_ok_iff _ _ _).2 hin)
    unfold diffTrees
    rw [if_neg hc, e0, e1, e2, e3, hi, pairs_mk r0 r1 r2]
    simp only [hs2, decide_true, stage_true, pairsDiff_cons, pairsDiff_append, ownDiff, List.append_assoc,
      List.append_nil]
theorem diffKids_flat : ∀ (l1 l2 : List (Obj σ)), RelL dataRepr l1 l2 → diffKids l1 l2 = (pairsDiff (pairsL l1 l2), true)
  | [], [] => by simp [diffKids, pairsL, flatL, pairsDiff]
  | _ :: _, [] => by simp [RelL]
  | [], _ :: _ => by simp [RelL]
  | x :: xs, y :: ys => by
    intro h
    have h' := h
    unfold RelL at h'
    unfold diffKids
    simp only [diffTrees_flat x y h'.1, diffKids_flat xs ys h'.2, pairsL_cons h'.1, pairsDiff_append]
end

mutual
theorem Rel_pairs {R : Data σ → Data σ → Prop} : ∀ (x y : Obj σ), x.Rel R y → ∀ p ∈ x.pairs y, R p.1 p.2
  | .mk a a0 a1 a2 a3, .mk b b0 b1 b2 b3 => by
    intro h p hp
    have h' := h
    unfold Obj.Rel at h'
    rw [pairs_mk h'.2.1 h'.2.2.1 h'.2.2.2.1] at hp
    simp only [List.mem_cons, List.mem_append] at hp
    rcases hp with rfl | hp | hp | hp | hp
    · exact h'.1
    · exact RelL_pairs a0 b0 h'.2.1 p hp
    · exact RelL_pairs a1 b1 h'.2.2.1 p hp
    · exact RelL_pairs a2 b2 h'.2.2.2.1 p hp
    · exact RelL_pairs a3 b3 h'.2.2.2.2 p hp
theorem RelL_pairs {R : Data σ → Data σ → Prop} : ∀ (l1 l2 : List (Obj σ)), RelL R l1 l2 → ∀ p ∈ pairsL l1 l2, R p.1 p.2
  | [], [] => by simp [pairsL, flatL]
  | _ :: _, [] => by simp [RelL]
  | [], _ :: _ => by simp [RelL]
  | x :: xs, y :: ys => by
    intro h p hp
    have h' := h
    unfold RelL at h'
    rw [pairsL_cons h'.1, List.mem_append] at hp
    rcases hp with hp | hp
    · exact Rel_pairs x y h'.1 p hp
    · exact RelL_pairs xs ys h'.2 p hp
end

mutual
/-- a data map turns a related pair of trees into a pair related by whatever holds of the mapped DFS pairs -/
theorem Rel_mapData {R R' : Data σ → Data σ → Prop} (g : Data σ → Data σ) : ∀ (x y : Obj σ), x.Rel R y →
    (∀ p ∈ x.pairs y, R' (g p.1) p.2) → (x.mapData g).Rel R' y
  | .mk a a0 a1 a2 a3, .mk b b0 b1 b2 b3 => by
    intro h hp
    have h' := h
    unfold Obj.Rel at h'
    rw [pairs_mk h'.2.1 h'.2.2.1 h'.2.2.2.1] at hp
    simp only [List.mem_cons, List.mem_append] at hp
    unfold Obj.mapData Obj.Rel
    exact ⟨hp (a, b) (Or.inl rfl),
      RelL_mapData g a0 b0 h'.2.1 (fun p h => hp p (Or.inr (Or.inl h))),
      RelL_mapData g a1 b1 h'.2.2.1 (fun p h => hp p (Or.inr (Or.inr (Or.inl h)))),
      RelL_mapData g a2 b2 h'.2.2.2.1 (fun p h => hp p (Or.inr (Or.inr (Or.inr (Or.inl h))))),
      RelL_mapData g a3 b3 h'.2.2.2.2 (fun p h => hp p (Or.inr (Or.inr (Or.inr (Or.inr h)))))⟩
theorem RelL_mapData {R R' : Data σ → Data σ → Prop} (g : Data σ → Data σ) : ∀ (l1 l2 : List (Obj σ)), RelL R l1 l2 →
    (∀ p ∈ pairsL l1 l2, R' (g p.1) p.2) → RelL R' (mapDataL g l1) l2
  | [], [] => by simp [mapDataL, RelL]
  | _ :: _, [] => by simp [RelL]
  | [], _ :: _ => by simp [RelL]
  | x :: xs, y :: ys => by
    intro h hp
    have h' := h
    unfold RelL at h'
    rw [pairsL_cons h'.1] at hp
    simp only [List.mem_append] at hp
    unfold mapDataL RelL
    exact ⟨Rel_mapData g x y h'.1 (fun p h => hp p (Or.inl h)), RelL_mapData g xs ys h'.2 (fun p h => hp p (Or.inr h))⟩
end

/-! ### 2. the entries of one pair of objects apply in order -/

/-- what the NAME entry of the pair `(a, b)` does to the data of the tree -/
def nameStep (a b x : Data σ) : Data σ :=
  { x with name := if x.key = a.key ∧ a.name ≠ b.name then b.name else x.name }
/-- what the SIZE entry of the pair does (local memory of the target, total memory of the target and its ancestors) -/
def sizeStep (a b x : Data σ) : Data σ :=
  { x with lmem := if x.key = a.key ∧ a.numa = true ∧ a.lmem ≠ b.lmem then b.lmem else x.lmem,
           tmem := x.tmem + if a.numa = true ∧ (x.key = a.key ∨ x.key ∈ a.ancs) then b.lmem - a.lmem else 0 }
/-- what the INFO entries of the pair do -/
def infosStep (a b x : Data σ) : Data σ :=
  { x with infos := if x.key = a.key ∧ a.infos ≠ b.infos then b.infos else x.infos }
def ownFun (a b x : Data σ) : Data σ := infosStep a b (sizeStep a b (nameStep a b x))

theorem infosFun_infosFun (k : Key) (l l' : List (σ × σ)) (x : Data σ) :
    infosFun k l' (infosFun k l x) = infosFun k l' x := by
  apply Data.ext' <;> simp only [infosFun_depth, infosFun_lidx, infosFun_ancs, infosFun_numa, infosFun_shape1,
    infosFun_shape2, infosFun_name, infosFun_lmem, infosFun_tmem, infosFun_infos, infosFun_key]
  split <;> rfl

theorem Topo.mapData_id (T : Topo σ) : T.mapData id = T := by
  cases T; simp [Topo.mapData, Hw.Diff.mapData_id]

theorem getObj_of_mem {T : Topo σ} (hk : KeysInj T) {a : Data σ} (ha : a ∈ T.flat) : getObj T a.key = some a := by
  unfold getObj
  cases h : T.flat.find? (fun d => d.key = a.key) with
  | none =>
    rw [List.find?_eq_none] at h
    exact absurd (by simp) (h a ha)
  | some x =>
    have hx := List.mem_of_find?_eq_some h
    have hxk : x.key = a.key := by simpa using List.find?_some h
    rw [hk x hx a ha hxk]

theorem getObj_none_of {T : Topo σ} {k : Key} (h : ∀ d ∈ T.flat, d.key ≠ k) : getObj T k = none := by
  unfold getObj
  rw [List.find?_eq_none]
  intro x hx
  simpa using h x hx

theorem apply_nameDiff {T : Topo σ} {a b a' : Data σ} (hg : getObj T a.key = some a') (hnm : a'.name = a.name)
    (hs : a.name.isSome = b.name.isSome) : applyAll false T (nameDiff a b) = some (T.mapData (nameStep a b)) := by
  unfold nameDiff
  by_cases h : a.name = b.name
  · have : nameStep a b = id := by funext x; simp [nameStep, h]
    simp [h, applyAll, this, Topo.mapData_id]
  · simp only [ne_eq, h, not_false_eq_true, if_true]
    cases ha : a.name with
    | none =>
      cases hb : b.name with
      | none => exact absurd (ha.trans hb.symm) h
      | some n => simp [ha, hb] at hs
    | some o =>
      cases hb : b.name with
      | none => simp [ha, hb] at hs
      | some n =>
        have hf : nameFun a.key n = nameStep a b := by
          funext x; unfold nameFun nameStep
          have h' : ¬ a.name = some n := fun c => h (c.trans hb.symm)
          by_cases hx : x.key = a.key <;> simp [hx, hb, h']
        simp [applyAll, applyOne, Attr.oriented, applyAttr, hg, hnm, ha, hf]

theorem apply_sizeDiff {T : Topo σ} {a b a' : Data σ} (hg : getObj T a.key = some a') (hnu : a'.numa = a.numa)
    (hl : a'.lmem = a.lmem) (han : a'.ancs = a.ancs) :
    applyAll false T (sizeDiff a b) = some (T.mapData (sizeStep a b)) := by
  have hkey : a'.key = a.key := (getObj_some hg).2
  unfold sizeDiff
  by_cases h : a.numa = true ∧ a.lmem ≠ b.lmem
  · have hf : sizeFun a' b.lmem (b.lmem - a.lmem) = sizeStep a b := by
      rw [sizeFun_congr hkey han]
      funext x
      apply Data.ext' <;> simp [sizeFun_depth, sizeFun_lidx, sizeFun_ancs, sizeFun_numa, sizeFun_shape1, sizeFun_shape2,
        sizeFun_name, sizeFun_infos, sizeFun_lmem, sizeFun_tmem, sizeStep, h]
    simp [h, applyAll, applyOne, Attr.oriented, applyAttr, hg, hnu, hl, hf]
  · have : sizeStep a b = id := by
      funext x
      by_cases hn : a.numa = true
      · have hl : a.lmem = b.lmem := Classical.byContradiction fun c => h ⟨hn, c⟩
        simp [sizeStep, hl]
      · simp [sizeStep, hn]
    simp [h, applyAll, this, Topo.mapData_id]

/-- INFO entries on one object: they act on its infos array like `applyInfos` -/
theorem applyAll_infoEntries (k : Key) : ∀ (es : List (Entry σ)) (T : Topo σ) (d : Data σ),
    (∀ e ∈ es, ∃ nm o n, e = Entry.objAttr k (.info nm o n)) → getObj T k = some d →
    applyAll false T es = (applyInfos d.infos es).map (fun l => if es.isEmpty then T else T.mapData (infosFun k l))
  | [], T, d, _, _ => by simp [applyAll, applyInfos]
  | e :: r, T, d, he, hg => by
    obtain ⟨nm, o, n, rfl⟩ := he e (by simp)
    have hkey : d.key = k := (getObj_some hg).2
    simp only [applyAll, applyOne, Attr.oriented, applyAttr, hg, applyInfos, List.isEmpty_cons, Bool.false_eq_true, if_false]
    cases hr : replaceFirst nm o n d.infos with
    | none => simp
    | some l1 =>
      have hg1 : getObj (T.mapData (infosFun k l1)) k = some { d with infos := l1 } := by
        rw [getObj_mapData _ _ (by simp), hg]
        simp [infosFun, hkey]
      simp only [Option.map_some, Option.bind_some]
      rw [applyAll_infoEntries k r _ _ (fun e h => he e (by simp [h])) hg1]
      cases r with
      | nil => simp [applyInfos]
      | cons x r' =>
        cases applyInfos l1 (x :: r') with
        | none => simp
        | some l =>
          simp only [Option.map_some, List.isEmpty_cons, Bool.false_eq_true, if_false, Topo.mapData_mapData]
          congr 2
          funext x
          simp only [Function.comp, infosFun_infosFun]

/-- INFO entries on the topology infos (a key of depth `nb_levels` that names no object) -/
theorem applyAll_tinfoEntries (k : Key) : ∀ (es : List (Entry σ)) (T : Topo σ),
    (∀ e ∈ es, ∃ nm o n, e = Entry.objAttr k (.info nm o n)) → getObj T k = none → k.1 = T.nbl →
    applyAll false T es = (applyInfos T.tinfos es).map (fun l => { T with tinfos := l })
  | [], T, _, _, _ => by simp [applyAll, applyInfos]
  | e :: r, T, he, hg, hk => by
    obtain ⟨nm, o, n, rfl⟩ := he e (by simp)
    simp only [applyAll, applyOne, Attr.oriented, applyAttr, hg, hk, if_true, applyInfos, Bool.false_eq_true, if_false]
    cases hr : replaceFirst nm o n T.tinfos with
    | none => simp
    | some l1 =>
      simp only [Option.map_some, Option.bind_some]
      exact applyAll_tinfoEntries k r { T with tinfos := l1 } (fun e h => he e (by simp [h])) hg hk

theorem apply_infosDiff {T : Topo σ} {a b a' : Data σ} (hg : getObj T a.key = some a') (hi : a'.infos = a.infos)
    (hnd : (a.infos.map Prod.fst).Nodup) (hin : a.infos.map Prod.fst = b.infos.map Prod.fst) :
    applyAll false T (infosGo a.key a.infos b.infos).1 = some (T.mapData (infosStep a b)) := by
  have hok := (infosGo_ok_iff a.key _ _).2 hin
  rw [applyAll_infoEntries a.key _ T a' (fun e he => by
    obtain ⟨nm, o, n, h, _⟩ := infosGo_entries a.key _ _ e he; exact ⟨nm, o, n, h⟩) hg, hi,
    applyInfos_infosGo a.key _ _ hnd hok]
  simp only [Option.map_some, Option.some.injEq]
  by_cases h : a.infos = b.infos
  · have h1 : (infosGo a.key a.infos b.infos).1 = [] := by rw [(infosGo_nil_iff a.key _ _).2 h]
    have : infosStep a b = id := by funext x; simp [infosStep, h]
    simp [h1, this, Topo.mapData_id]
  · have h1 : (infosGo a.key a.infos b.infos).1 ≠ [] := by
      intro c
      exact h ((infosGo_nil_iff a.key _ _).1 (Prod.ext c hok))
    have : infosFun a.key b.infos = infosStep a b := by
      funext x; unfold infosFun infosStep
      by_cases hx : x.key = a.key <;> simp [hx, h]
    simp [h1, this]

/-! ### 3. all pairs: the whole object part of a built diff -/

/-- the object found under `a`'s key still carries everything the entries of `a` read -/
def Agree (x a : Data σ) : Prop :=
  x.key = a.key ∧ x.ancs = a.ancs ∧ x.numa = a.numa ∧ x.name = a.name ∧ x.lmem = a.lmem ∧ x.infos = a.infos

/-- what `dataRepr` and `InfoNamesDistinct` give for one pair -/
def PairOK (a b : Data σ) : Prop :=
  a.name.isSome = b.name.isSome ∧ (a.infos.map Prod.fst).Nodup ∧ a.infos.map Prod.fst = b.infos.map Prod.fst

section ownFields
variable (a b x : Data σ)
theorem ownFun_key : (ownFun a b x).key = x.key := rfl
theorem ownFun_depth : (ownFun a b x).depth = x.depth := rfl
theorem ownFun_lidx : (ownFun a b x).lidx = x.lidx := rfl
theorem ownFun_ancs : (ownFun a b x).ancs = x.ancs := rfl
theorem ownFun_numa : (ownFun a b x).numa = x.numa := rfl
theorem ownFun_shape1 : (ownFun a b x).shape1 = x.shape1 := rfl
theorem ownFun_shape2 : (ownFun a b x).shape2 = x.shape2 := rfl
theorem ownFun_name : (ownFun a b x).name = if x.key = a.key ∧ a.name ≠ b.name then b.name else x.name := rfl
theorem ownFun_lmem : (ownFun a b x).lmem = if x.key = a.key ∧ a.numa = true ∧ a.lmem ≠ b.lmem then b.lmem else x.lmem := rfl
theorem ownFun_infos : (ownFun a b x).infos = if x.key = a.key ∧ a.infos ≠ b.infos then b.infos else x.infos := rfl
theorem ownFun_tmem : (ownFun a b x).tmem =
    x.tmem + if a.numa = true ∧ (x.key = a.key ∨ x.key ∈ a.ancs) then b.lmem - a.lmem else 0 := rfl
end ownFields

theorem ownFun_agree_other {a b x c : Data σ} (h : x.key ≠ a.key) (hc : Agree x c) : Agree (ownFun a b x) c := by
  unfold Agree at *
  rw [ownFun_key, ownFun_ancs, ownFun_numa, ownFun_name, ownFun_lmem, ownFun_infos]
  simp only [h, false_and, if_false]
  exact hc

theorem applyAll_ownDiff {T : Topo σ} {a b a' : Data σ} (hg : getObj T a.key = some a') (hag : Agree a' a)
    (hp : PairOK a b) : applyAll false T (ownDiff a b) = some (T.mapData (ownFun a b)) := by
  obtain ⟨hk, han, hnu, hnm, hl, hi⟩ := hag
  unfold ownDiff
  have hg1 : getObj (T.mapData (nameStep a b)) a.key = some (nameStep a b a') := by
    rw [getObj_mapData T (nameStep a b) (fun x => rfl), hg]; rfl
  have hg2 : getObj ((T.mapData (nameStep a b)).mapData (sizeStep a b)) a.key = some (sizeStep a b (nameStep a b a')) := by
    rw [getObj_mapData _ (sizeStep a b) (fun x => rfl), hg1]; rfl
  rw [applyAll_append, apply_nameDiff hg hnm hp.1, Option.bind_some, applyAll_append,
    apply_sizeDiff hg1 hnu hl han, Option.bind_some, apply_infosDiff hg2 hi hp.2.1 hp.2.2,
    Topo.mapData_mapData, Topo.mapData_mapData]
  rfl

/-- the data map of a whole list of pairs, first pair first -/
def GG : List (Data σ × Data σ) → Data σ → Data σ
  | [], x => x
  | p :: r, x => GG r (ownFun p.1 p.2 x)

theorem applyAll_pairs : ∀ (P : List (Data σ × Data σ)) (T : Topo σ), (P.map (fun p => p.1.key)).Nodup →
    (∀ p ∈ P, PairOK p.1 p.2) → (∀ p ∈ P, ∃ a', getObj T p.1.key = some a' ∧ Agree a' p.1) →
    applyAll false T (pairsDiff P) = some (T.mapData (GG P))
  | [], T, _, _, _ => by
    have : GG ([] : List (Data σ × Data σ)) = id := by funext x; rfl
    simp [pairsDiff, applyAll, this, Topo.mapData_id]
  | p :: r, T, hnd, hok, hg => by
    obtain ⟨a', hga, hag⟩ := hg p (by simp)
    simp only [List.map_cons, List.nodup_cons] at hnd
    have hg' : ∀ q ∈ r, ∃ b', getObj (T.mapData (ownFun p.1 p.2)) q.1.key = some b' ∧ Agree b' q.1 := by
      intro q hq
      obtain ⟨b', hgb, hagb⟩ := hg q (by simp [hq])
      refine ⟨ownFun p.1 p.2 b', ?_, ?_⟩
      · rw [getObj_mapData T (ownFun p.1 p.2) (fun x => rfl), hgb]; rfl
      · apply ownFun_agree_other _ hagb
        rw [hagb.1]
        intro c
        exact hnd.1 (List.mem_map.2 ⟨q, hq, c⟩)
    rw [pairsDiff_cons, applyAll_append, applyAll_ownDiff hga hag (hok p (by simp)), Option.bind_some,
      applyAll_pairs r _ hnd.2 (fun q hq => hok q (by simp [hq])) hg', Topo.mapData_mapData]
    congr 2

theorem GG_key : ∀ (P : List (Data σ × Data σ)) (x : Data σ), (GG P x).key = x.key
  | [], _ => rfl
  | p :: r, x => by rw [GG, GG_key r, ownFun_key]

theorem GG_static : ∀ (P : List (Data σ × Data σ)) (x : Data σ), (GG P x).depth = x.depth ∧ (GG P x).lidx = x.lidx ∧
    (GG P x).ancs = x.ancs ∧ (GG P x).numa = x.numa ∧ (GG P x).shape1 = x.shape1 ∧ (GG P x).shape2 = x.shape2
  | [], _ => ⟨rfl, rfl, rfl, rfl, rfl, rfl⟩
  | p :: r, x => by
    obtain ⟨h1, h2, h3, h4, h5, h6⟩ := GG_static r (ownFun p.1 p.2 x)
    exact ⟨h1, h2, h3, h4, h5, h6⟩

/-- total change of `total_memory` of the object with key `k`: the SIZE deltas of the NUMA nodes at or below it -/
def deltaSum : List (Data σ × Data σ) → Key → Mem
  | [], _ => 0
  | p :: r, k => (if p.1.numa = true ∧ (k = p.1.key ∨ k ∈ p.1.ancs) then p.2.lmem - p.1.lmem else 0) + deltaSum r k

theorem GG_tmem : ∀ (P : List (Data σ × Data σ)) (x : Data σ), (GG P x).tmem = x.tmem + deltaSum P x.key
  | [], x => by simp [GG, deltaSum]
  | p :: r, x => by
    rw [GG, GG_tmem r, ownFun_key, ownFun_tmem, deltaSum, BitVec.add_assoc]

theorem GG_other : ∀ (P : List (Data σ × Data σ)) (x : Data σ), x.key ∉ P.map (fun p => p.1.key) →
    (GG P x).name = x.name ∧ (GG P x).lmem = x.lmem ∧ (GG P x).infos = x.infos
  | [], _, _ => ⟨rfl, rfl, rfl⟩
  | p :: r, x, h => by
    simp only [List.map_cons, List.mem_cons, not_or] at h
    obtain ⟨h1, h2, h3⟩ := GG_other r (ownFun p.1 p.2 x) (by rw [ownFun_key]; exact h.2)
    rw [GG, h1, h2, h3, ownFun_name, ownFun_lmem, ownFun_infos]
    simp only [h.1, false_and, if_false, and_self]

/-- the pair of `x`'s key decides name, infos and (on a NUMA node) local memory of `GG P x` -/
theorem GG_self : ∀ (P : List (Data σ × Data σ)), (P.map (fun p => p.1.key)).Nodup → ∀ p ∈ P, ∀ x, Agree x p.1 →
    (GG P x).name = p.2.name ∧ (GG P x).infos = p.2.infos ∧ (p.1.numa = true → (GG P x).lmem = p.2.lmem)
  | [], _, p, hp, _, _ => by simp at hp
  | q :: r, hnd, p, hp, x, hx => by
    simp only [List.map_cons, List.nodup_cons] at hnd
    simp only [List.mem_cons] at hp
    rcases hp with rfl | hp
    · have hy : (ownFun p.1 p.2 x).key ∉ r.map (fun p => p.1.key) := by rw [ownFun_key, hx.1]; exact hnd.1
      obtain ⟨h1, h2, h3⟩ := GG_other r _ hy
      obtain ⟨hxk, _, _, hxn, hxl, hxi⟩ := hx
      rw [GG, h1, h2, h3, ownFun_name, ownFun_lmem, ownFun_infos]
      simp only [hxk, true_and]
      refine ⟨?_, ?_, ?_⟩
      · by_cases h : p.1.name = p.2.name
        · simp [h, hxn]
        · simp [h]
      · by_cases h : p.1.infos = p.2.infos
        · simp [h, hxi]
        · simp [h]
      · intro hn
        by_cases h : p.1.lmem = p.2.lmem
        · simp [h, hxl]
        · simp [h, hn]
    · have hne : x.key ≠ q.1.key := by
        rw [hx.1]
        intro c
        exact hnd.1 (List.mem_map.2 ⟨p, hp, c⟩)
      exact GG_self r hnd.2 p hp _ (ownFun_agree_other hne hx)

/-! ### 4. apply ∘ build -/

/-- a diff built with return value 0: the pair is representable and the list is the object part in DFS order
    followed by the topology-infos part -/
theorem build_ok_form {A B : Topo σ} {d : List (Entry σ)} (h : build A B = (0, d)) :
    TopoRepr A B ∧ d = pairsDiff (A.root.pairs B.root) ++ (infosGo (A.nbl, 0) A.tinfos B.tinfos).1 := by
  have h0 : (build A B).1 = 0 := by rw [h]
  have hr := (build_ret0_iff A B).1 h0
  refine ⟨hr, ?_⟩
  obtain ⟨hroot, hal, hti, hd, hm, hkd⟩ := hr
  have hrt : (diffTrees A.root B.root).any Entry.isTC = false := (diffTrees_noTC_iff _ _).2 hroot
  have hio := (infosDiff_ok_iff (A.nbl, 0) _ _).2 hti
  have hdd := (distsDiffer_false_iff _ _).2 hd
  have hlen : A.tinfos.length = B.tinfos.length := by simpa using congrArg List.length hti
  have hi : (infosDiff (A.nbl, 0) A.tinfos B.tinfos).1 = (infosGo (A.nbl, 0) A.tinfos B.tinfos).1 := by
    unfold infosDiff; simp [hlen]
  unfold build at h
  simp only [hrt, hal, hio, hdd, hm, hkd, Bool.false_eq_true, if_false, ne_eq, not_true_eq_false, Bool.not_true,
    Prod.mk.injEq, true_and] at h
  rw [← h, diffTrees_flat _ _ hroot, hi]

/-- the topology a built diff turns `A` into -/
def applied (A B : Topo σ) : Topo σ := { A.mapData (GG (A.root.pairs B.root)) with tinfos := B.tinfos }

theorem applied_flat (A B : Topo σ) : (applied A B).flat = A.flat.map (GG (A.root.pairs B.root)) :=
  Topo.flat_mapData A _

/-- facts about the DFS pairing of a representable pair under the hypotheses on `A` -/
theorem pairs_facts {A B : Topo σ} (hk : KeysNodup A) (hn : InfoNamesDistinct A) (hr : A.root.Rel dataRepr B.root) :
    A.flat.length = B.flat.length ∧ (A.root.pairs B.root).map Prod.fst = A.flat ∧
    (A.root.pairs B.root).map Prod.snd = B.flat ∧
    ((A.root.pairs B.root).map (fun p => p.1.key)).Nodup ∧
    (∀ p ∈ A.root.pairs B.root, p.1 ∈ A.flat ∧ dataRepr p.1 p.2 ∧ PairOK p.1 p.2) := by
  have hlen : A.flat.length = B.flat.length := Rel_flat_length _ _ hr
  have hfst : (A.root.pairs B.root).map Prod.fst = A.flat := List.map_fst_zip (Nat.le_of_eq hlen)
  have hsnd : (A.root.pairs B.root).map Prod.snd = B.flat := List.map_snd_zip (Nat.le_of_eq hlen.symm)
  refine ⟨hlen, hfst, hsnd, ?_, ?_⟩
  · have : (A.root.pairs B.root).map (fun p => p.1.key) = ((A.root.pairs B.root).map Prod.fst).map Data.key := by
      rw [List.map_map]; rfl
    rw [this, hfst]; exact hk
  · intro p hp
    have hm : p.1 ∈ A.flat := (List.of_mem_zip (a := p.1) (b := p.2) hp).1
    have hd := Rel_pairs _ _ hr p hp
    exact ⟨hm, hd, hd.2.2.1, hn.1 p.1 hm, hd.2.2.2.2⟩

theorem applyAll_build {A B : Topo σ} {d : List (Entry σ)} (hk : KeysNodup A) (hn : InfoNamesDistinct A)
    (hd : DepthsBelowNbl A) (h : build A B = (0, d)) : applyAll false A d = some (applied A B) := by
  obtain ⟨hr, rfl⟩ := build_ok_form h
  obtain ⟨_, _, _, hnd, hp⟩ := pairs_facts hk hn hr.1
  rw [applyAll_append, applyAll_pairs _ A hnd (fun p h => (hp p h).2.2)
    (fun p h => ⟨p.1, getObj_of_mem hk.keysInj (hp p h).1, rfl, rfl, rfl, rfl, rfl, rfl⟩), Option.bind_some]
  have hnone : getObj (A.mapData (GG (A.root.pairs B.root))) (A.nbl, 0) = none := by
    apply getObj_none_of
    intro x hx
    rw [Topo.flat_mapData, List.mem_map] at hx
    obtain ⟨y, hy, rfl⟩ := hx
    rw [GG_key]
    intro c
    have := hd y hy
    have hc : y.depth = A.nbl := congrArg Prod.fst c
    omega
  rw [applyAll_tinfoEntries (A.nbl, 0) _ _ (fun e he => by
    obtain ⟨nm, o, n, h, _⟩ := infosGo_entries (A.nbl, 0) _ _ e he; exact ⟨nm, o, n, h⟩) hnone rfl]
  show (applyInfos A.tinfos _).map _ = _
  rw [applyInfos_infosGo _ _ _ hn.2 ((infosGo_ok_iff _ _ _).2 hr.2.2.1)]
  rfl

/-- what the patched topology looks like, pair by pair -/
theorem applied_pair {A B : Topo σ} (hk : KeysNodup A) (hn : InfoNamesDistinct A) (hr : A.root.Rel dataRepr B.root) :
    ∀ p ∈ A.root.pairs B.root, dataSame (GG (A.root.pairs B.root) p.1) p.2 := by
  obtain ⟨_, _, _, hnd, hp⟩ := pairs_facts hk hn hr
  intro p hpm
  obtain ⟨h1, h2, h3⟩ := GG_self _ hnd p hpm p.1 ⟨rfl, rfl, rfl, rfl, rfl, rfl⟩
  obtain ⟨s1, _, _, s4, s5, s6⟩ := GG_static (A.root.pairs B.root) p.1
  obtain ⟨d1, d2, _, d4, _⟩ := (hp p hpm).2.1
  exact ⟨s1.trans d1, s5.trans d2, s6.trans d4, h1, fun hnu => h3 (s4 ▸ hnu), h2⟩

theorem build_applied {A B : Topo σ} (hk : KeysNodup A) (hn : InfoNamesDistinct A) (hr : TopoRepr A B) :
    build (applied A B) B = (0, []) := by
  rw [build_empty_iff]
  obtain ⟨hroot, hal, _, hd, hm, hkd⟩ := hr
  exact ⟨Rel_mapData _ _ _ hroot (applied_pair hk hn hroot), hal, rfl, hd, hm, hkd⟩

/-! ### 5. what can be observed of the patched topology -/

theorem map_eq_of_zip {α β γ : Type} (f : α → γ) (g : β → γ) : ∀ (l1 : List α) (l2 : List β), l1.length = l2.length →
    (∀ p ∈ l1.zip l2, f p.1 = g p.2) → l1.map f = l2.map g
  | [], [], _, _ => rfl
  | [], _ :: _, h, _ => by simp at h
  | _ :: _, [], h, _ => by simp at h
  | x :: xs, y :: ys, h, hp => by
    simp only [List.zip_cons_cons, List.mem_cons] at hp
    simp only [List.map_cons, List.cons.injEq]
    exact ⟨hp (x, y) (Or.inl rfl), map_eq_of_zip f g xs ys (by simpa using h) (fun p h => hp p (Or.inr h))⟩

theorem zip_of_map_eq {α β γ : Type} (f : α → γ) (g : β → γ) : ∀ (l1 : List α) (l2 : List β), l1.map f = l2.map g →
    ∀ p ∈ l1.zip l2, f p.1 = g p.2
  | [], _, _, p, hp => by simp at hp
  | _ :: _, [], _, p, hp => by simp at hp
  | x :: xs, y :: ys, h, p, hp => by
    simp only [List.map_cons, List.cons.injEq] at h
    simp only [List.zip_cons_cons, List.mem_cons] at hp
    rcases hp with rfl | hp
    · exact h.1
    · exact zip_of_map_eq f g xs ys h.2 p hp

/-- any per-object observation that agrees on every DFS pair agrees on the flattened trees -/
theorem applied_map_eq {A B : Topo σ} {γ : Type} (f : Data σ → γ) (hlen : A.flat.length = B.flat.length)
    (h : ∀ p ∈ A.root.pairs B.root, f (GG (A.root.pairs B.root) p.1) = f p.2) :
    (applied A B).flat.map f = B.flat.map f := by
  rw [applied_flat, List.map_map]
  exact map_eq_of_zip _ _ _ _ hlen h

/-- the part of the observation that needs no hypothesis on `total_memory`: names, infos, topology infos -/
def obsCore (T : Topo σ) : List (Option σ × List (σ × σ)) × List (σ × σ) :=
  (T.flat.map (fun d => (d.name, d.infos)), T.tinfos)

theorem obsCore_applied {A B : Topo σ} (hk : KeysNodup A) (hn : InfoNamesDistinct A) (hr : A.root.Rel dataRepr B.root) :
    obsCore (applied A B) = obsCore B := by
  unfold obsCore
  congr 1
  apply applied_map_eq _ (Rel_flat_length _ _ hr)
  intro p hp
  obtain ⟨_, _, _, h4, _, h6⟩ := applied_pair hk hn hr p hp
  rw [h4, h6]

/-- local memory of every NUMA node of the patched topology is the one of `B` -/
theorem lmem_applied {A B : Topo σ} (hk : KeysNodup A) (hn : InfoNamesDistinct A) (hr : A.root.Rel dataRepr B.root) :
    ∀ p ∈ (applied A B).flat.zip B.flat, p.1.numa = true → p.1.lmem = p.2.lmem := by
  intro p hp hnu
  rw [applied_flat, List.zip_map_left, List.mem_map] at hp
  obtain ⟨q, hq, rfl⟩ := hp
  exact (applied_pair hk hn hr q hq).2.2.2.2.1 hnu

/-- the sum of the local memories of the NUMA nodes at or below the object with key `k` (uint64 arithmetic) -/
def memSum : List (Data σ) → Key → Mem
  | [], _ => 0
  | d :: r, k => (if d.numa = true ∧ (k = d.key ∨ k ∈ d.ancs) then d.lmem else 0) + memSum r k

/-- `total_memory` of every object is the sum of the local memories of the NUMA nodes at or below it -/
def MemConsistent (T : Topo σ) : Prop := ∀ x ∈ T.flat, x.tmem = memSum T.flat x.key

def skel (d : Data σ) : Key × List Key × Bool := (d.key, d.ancs, d.numa)

/-- the two trees agree, object by object in DFS order, on key, ancestor chain and "is a NUMA node".
    (In hwloc these are functions of the tree shape and of the object types, which a representable pair shares;
    the model keeps them as data.) -/
def SameSkeleton (A B : Topo σ) : Prop := A.flat.map skel = B.flat.map skel

instance (T : Topo σ) : Decidable (MemConsistent T) := by unfold MemConsistent; infer_instance
instance (A B : Topo σ) : Decidable (SameSkeleton A B) := by unfold SameSkeleton; infer_instance

theorem mem_step (a b s ds : Mem) : a + s + (b - a + ds) = b + (s + ds) := by
  have h : a + s + (b - a + ds) = (b - a + a) + (s + ds) := by ac_rfl
  rw [h, BitVec.sub_add_cancel]

theorem memSum_delta : ∀ (P : List (Data σ × Data σ)) (k : Key), (∀ p ∈ P, skel p.1 = skel p.2) →
    memSum (P.map Prod.fst) k + deltaSum P k = memSum (P.map Prod.snd) k
  | [], _, _ => by simp [memSum, deltaSum]
  | p :: r, k, h => by
    have hs := h p (by simp)
    simp only [skel, Prod.mk.injEq] at hs
    obtain ⟨h1, h2, h3⟩ := hs
    simp only [List.map_cons, memSum, deltaSum, ← memSum_delta r k (fun q hq => h q (by simp [hq])), ← h1, ← h2, ← h3]
    split
    · exact mem_step _ _ _ _
    · simp

theorem applied_tmem {A B : Topo σ} (hk : KeysNodup A) (hn : InfoNamesDistinct A) (hr : A.root.Rel dataRepr B.root)
    (hs : SameSkeleton A B) (hA : MemConsistent A) (hB : MemConsistent B) :
    ∀ p ∈ A.root.pairs B.root, (GG (A.root.pairs B.root) p.1).tmem = p.2.tmem := by
  obtain ⟨_, hfst, hsnd, _, hp⟩ := pairs_facts hk hn hr
  have hsk := zip_of_map_eq skel skel _ _ hs
  intro p hpm
  have hpk : p.1.key = p.2.key := congrArg Prod.fst (hsk p hpm)
  have hm2 : p.2 ∈ B.flat := (List.of_mem_zip (a := p.1) (b := p.2) hpm).2
  rw [GG_tmem, hA p.1 (hp p hpm).1, hB p.2 hm2, ← hpk]
  conv => lhs; rw [← hfst]
  conv => rhs; rw [← hsnd]
  exact memSum_delta _ _ hsk

/-- the full observation: per object (DFS order) key, name, local memory of NUMA nodes, total memory, infos;
    and the topology infos -/
def obs (T : Topo σ) : List (Key × Option σ × Option Mem × Mem × List (σ × σ)) × List (σ × σ) :=
  (T.flat.map (fun d => (d.key, d.name, (if d.numa = true then some d.lmem else none), d.tmem, d.infos)), T.tinfos)

theorem obs_applied {A B : Topo σ} (hk : KeysNodup A) (hn : InfoNamesDistinct A) (hr : A.root.Rel dataRepr B.root)
    (hs : SameSkeleton A B) (hA : MemConsistent A) (hB : MemConsistent B) : obs (applied A B) = obs B := by
  unfold obs
  congr 1
  apply applied_map_eq _ (Rel_flat_length _ _ hr)
  intro p hp
  obtain ⟨_, _, _, h4, h5, h6⟩ := applied_pair hk hn hr p hp
  have hsk := zip_of_map_eq skel skel _ _ hs p hp
  simp only [skel, Prod.mk.injEq] at hsk
  have hnu := (GG_static (A.root.pairs B.root) p.1).2.2.2.1
  rw [GG_key, h4, h6, applied_tmem hk hn hr hs hA hB p hp, hsk.1, hnu, hsk.2.2]
  by_cases hb : p.2.numa = true
  · rw [hnu, hsk.2.2] at h5
    simp [hb, h5 hb]
  · simp [hb]

/-! ### 6. the entries of a built diff address pairwise distinct attributes -/

theorem indep_of_keys {nbl : Int} {k1 k2 : Key} {a1 a2 : Attr σ} (h : k1 ≠ k2) (h1 : k1.1 ≠ nbl) :
    Indep nbl (.objAttr k1 a1) (.objAttr k2 a2) := by
  simp [Indep, indep, sameObj, h, h1]

theorem infosGo_pairwise (nbl : Int) (k : Key) : ∀ (i1 i2 : List (σ × σ)), (i1.map Prod.fst).Nodup →
    (infosGo k i1 i2).1.Pairwise (Indep nbl)
  | [], [], _ => by simp [infosGo]
  | [], _ :: _, _ => by simp [infosGo]
  | _ :: _, [], _ => by simp [infosGo]
  | (n1, v1) :: r1, (n2, v2) :: r2, hnd => by
    simp only [List.map_cons, List.nodup_cons] at hnd
    unfold infosGo
    by_cases hn : n1 = n2
    · simp only [hn, ne_eq, not_true_eq_false, if_false]
      rw [List.pairwise_append]
      refine ⟨by split <;> simp, infosGo_pairwise nbl k r1 r2 hnd.2, ?_⟩
      intro x hx y hy
      obtain ⟨nm, o, n, rfl, hmem⟩ := infosGo_entries k r1 r2 y hy
      have hne : n2 ≠ nm := fun c => hnd.1 (hn ▸ c ▸ hmem)
      split at hx
      · simp only [List.mem_singleton] at hx
        subst hx
        simp [Indep, indep, Attr.sameSlot, hne]
      · simp at hx
    · simp [hn]

theorem mem_nameDiff {a b : Data σ} {e : Entry σ} (h : e ∈ nameDiff a b) : ∃ o n, e = .objAttr a.key (.name o n) := by
  unfold nameDiff at h
  split at h
  · exact ⟨_, _, by simpa using h⟩
  · simp at h

theorem mem_sizeDiff {a b : Data σ} {e : Entry σ} (h : e ∈ sizeDiff a b) : ∃ o n, e = .objAttr a.key (.size o n) := by
  unfold sizeDiff at h
  split at h
  · exact ⟨_, _, by simpa using h⟩
  · simp at h

theorem ownDiff_key {a b : Data σ} {e : Entry σ} (h : e ∈ ownDiff a b) : ∃ att, e = .objAttr a.key att := by
  unfold ownDiff at h
  simp only [List.mem_append] at h
  rcases h with h | h | h
  · obtain ⟨o, n, rfl⟩ := mem_nameDiff h; exact ⟨_, rfl⟩
  · obtain ⟨o, n, rfl⟩ := mem_sizeDiff h; exact ⟨_, rfl⟩
  · obtain ⟨nm, o, n, rfl, _⟩ := infosGo_entries _ _ _ e h; exact ⟨_, rfl⟩

theorem ownDiff_pairwise (nbl : Int) (a b : Data σ) (hnd : (a.infos.map Prod.fst).Nodup) :
    (ownDiff a b).Pairwise (Indep nbl) := by
  unfold ownDiff
  rw [List.pairwise_append, List.pairwise_append]
  refine ⟨by unfold nameDiff; split <;> simp, ⟨by unfold sizeDiff; split <;> simp, infosGo_pairwise nbl _ _ _ hnd, ?_⟩, ?_⟩
  · intro x hx y hy
    obtain ⟨o, n, rfl⟩ := mem_sizeDiff hx
    obtain ⟨nm, o', n', rfl, _⟩ := infosGo_entries _ _ _ y hy
    simp [Indep, indep, Attr.sameSlot]
  · intro x hx y hy
    obtain ⟨o, n, rfl⟩ := mem_nameDiff hx
    simp only [List.mem_append] at hy
    rcases hy with hy | hy
    · obtain ⟨o', n', rfl⟩ := mem_sizeDiff hy
      simp [Indep, indep, Attr.sameSlot]
    · obtain ⟨nm, o', n', rfl, _⟩ := infosGo_entries _ _ _ y hy
      simp [Indep, indep, Attr.sameSlot]

theorem pairsDiff_pairwise (nbl : Int) : ∀ (P : List (Data σ × Data σ)), (P.map (fun p => p.1.key)).Nodup →
    (∀ p ∈ P, p.1.depth ≠ nbl ∧ (p.1.infos.map Prod.fst).Nodup) → (pairsDiff P).Pairwise (Indep nbl)
  | [], _, _ => by simp [pairsDiff]
  | p :: r, hnd, hp => by
    simp only [List.map_cons, List.nodup_cons] at hnd
    rw [pairsDiff_cons, List.pairwise_append]
    refine ⟨ownDiff_pairwise nbl _ _ (hp p (by simp)).2, pairsDiff_pairwise nbl r hnd.2 (fun q hq => hp q (by simp [hq])), ?_⟩
    intro x hx y hy
    obtain ⟨a1, rfl⟩ := ownDiff_key hx
    unfold pairsDiff at hy
    rw [List.mem_flatMap] at hy
    obtain ⟨q, hq, hy⟩ := hy
    obtain ⟨a2, rfl⟩ := ownDiff_key hy
    apply indep_of_keys
    · intro c
      exact hnd.1 (List.mem_map.2 ⟨q, hq, c.symm⟩)
    · exact (hp p (by simp)).1

/-- every diff built with return value 0 addresses pairwise distinct attributes -/
theorem build_distinctSlots {A B : Topo σ} {d : List (Entry σ)} (hk : KeysNodup A) (hn : InfoNamesDistinct A)
    (hd : DepthsBelowNbl A) (h : build A B = (0, d)) : DistinctSlots A.nbl d := by
  obtain ⟨hr, rfl⟩ := build_ok_form h
  obtain ⟨_, _, _, hnd, hp⟩ := pairs_facts hk hn hr.1
  have hdep : ∀ p ∈ A.root.pairs B.root, p.1.depth ≠ A.nbl := by
    intro p hpm
    have := hd p.1 (hp p hpm).1
    omega
  unfold DistinctSlots
  rw [List.pairwise_append]
  refine ⟨pairsDiff_pairwise A.nbl _ hnd (fun p hpm => ⟨hdep p hpm, (hp p hpm).2.2.2.1⟩),
    infosGo_pairwise A.nbl _ _ _ hn.2, ?_⟩
  intro x hx y hy
  unfold pairsDiff at hx
  rw [List.mem_flatMap] at hx
  obtain ⟨q, hq, hx⟩ := hx
  obtain ⟨a1, rfl⟩ := ownDiff_key hx
  obtain ⟨nm, o, n, rfl, _⟩ := infosGo_entries _ _ _ y hy
  apply indep_of_keys
  · intro c
    exact hdep q hq (congrArg Prod.fst c)
  · exact hdep q hq

/-! ### 7. the same diff read backwards: REVERSE application to `B` -/

def Entry.swap : Entry σ → Entry σ
  | .objAttr k a => .objAttr k a.swap
  | e => e

theorem applyOne_true (T : Topo σ) (e : Entry σ) : applyOne true T e = applyOne false T e.swap := by
  cases e <;> simp [applyOne, Entry.swap, Attr.oriented]

theorem applyAll_true : ∀ (d : List (Entry σ)) (T : Topo σ), applyAll true T d = applyAll false T (d.map Entry.swap)
  | [], _ => rfl
  | e :: r, T => by
    simp only [applyAll, List.map_cons, applyOne_true]
    congr 1
    funext T'
    exact applyAll_true r T'

theorem infosGo_swap (k : Key) : ∀ (i1 i2 : List (σ × σ)), (infosGo k i2 i1).1 = (infosGo k i1 i2).1.map Entry.swap
  | [], [] => by simp [infosGo]
  | [], _ :: _ => by simp [infosGo]
  | _ :: _, [] => by simp [infosGo]
  | (n1, v1) :: r1, (n2, v2) :: r2 => by
    unfold infosGo
    by_cases hn : n1 = n2
    · subst hn
      by_cases hv : v1 = v2
      · subst hv
        simp [infosGo_swap k r1 r2]
      · have hv' : ¬ v2 = v1 := fun c => hv c.symm
        simp [hv, hv', infosGo_swap k r1 r2, Entry.swap, Attr.swap]
    · have hn' : ¬ n2 = n1 := fun c => hn c.symm
      simp [hn, hn']

theorem ownDiff_swap {a b : Data σ} (hk : a.key = b.key) (hnu : a.numa = b.numa) :
    ownDiff b a = (ownDiff a b).map Entry.swap := by
  unfold ownDiff
  simp only [List.map_append, ← infosGo_swap, hk]
  congr 1
  · unfold nameDiff
    by_cases h : a.name = b.name
    · simp [h]
    · have h' : ¬ b.name = a.name := fun c => h c.symm
      simp [h, h', Entry.swap, Attr.swap, hk]
  · congr 1
    unfold sizeDiff
    by_cases h : a.lmem = b.lmem
    · simp [h]
    · have h' : ¬ b.lmem = a.lmem := fun c => h c.symm
      by_cases hb : b.numa = true <;> simp [h, h', hnu, hb, Entry.swap, Attr.swap, hk]

theorem pairsDiff_swap : ∀ (P : List (Data σ × Data σ)), (∀ p ∈ P, skel p.1 = skel p.2) →
    pairsDiff (P.map Prod.swap) = (pairsDiff P).map Entry.swap
  | [], _ => by simp [pairsDiff]
  | p :: r, h => by
    have hs := h p (by simp)
    simp only [skel, Prod.mk.injEq] at hs
    rw [List.map_cons, pairsDiff_cons, pairsDiff_cons, List.map_append,
      pairsDiff_swap r (fun q hq => h q (by simp [hq]))]
    congr 1
    exact ownDiff_swap hs.1 hs.2.2

theorem zip_swap {α β : Type} : ∀ (l1 : List α) (l2 : List β), l2.zip l1 = (l1.zip l2).map Prod.swap
  | [], l2 => by cases l2 <;> simp
  | _ :: _, [] => by simp
  | x :: xs, y :: ys => by simp [zip_swap xs ys]

mutual
theorem Rel_symm {R R' : Data σ → Data σ → Prop} (hR : ∀ a b, R a b → R' b a) : ∀ (x y : Obj σ), x.Rel R y → y.Rel R' x
  | .mk a a0 a1 a2 a3, .mk b b0 b1 b2 b3 => by
    intro h
    unfold Obj.Rel at h ⊢
    exact ⟨hR _ _ h.1, RelL_symm hR a0 b0 h.2.1, RelL_symm hR a1 b1 h.2.2.1, RelL_symm hR a2 b2 h.2.2.2.1,
      RelL_symm hR a3 b3 h.2.2.2.2⟩
theorem RelL_symm {R R' : Data σ → Data σ → Prop} (hR : ∀ a b, R a b → R' b a) : ∀ (l1 l2 : List (Obj σ)),
    RelL R l1 l2 → RelL R' l2 l1
  | [], [] => by simp [RelL]
  | _ :: _, [] => by simp [RelL]
  | [], _ :: _ => by simp [RelL]
  | x :: xs, y :: ys => by
    intro h
    unfold RelL at h ⊢
    exact ⟨Rel_symm hR x y h.1, RelL_symm hR xs ys h.2⟩
end

theorem dataRepr_symm (a b : Data σ) (h : dataRepr a b) : dataRepr b a :=
  ⟨h.1.symm, h.2.1.symm, h.2.2.1.symm, h.2.2.2.1.symm, h.2.2.2.2.symm⟩

theorem TopoRepr.symm {A B : Topo σ} (h : TopoRepr A B) : TopoRepr B A :=
  ⟨Rel_symm dataRepr_symm _ _ h.1, h.2.1.symm, h.2.2.1.symm, h.2.2.2.1.symm, h.2.2.2.2.1.symm, h.2.2.2.2.2.symm⟩

/-- the hypotheses on `A` carry over to a representable `B` with the same skeleton and `nb_levels` -/
theorem hyps_transfer {A B : Topo σ} (hk : KeysNodup A) (hn : InfoNamesDistinct A) (hd : DepthsBelowNbl A)
    (hr : TopoRepr A B) (hs : SameSkeleton A B) (hnbl : A.nbl = B.nbl) :
    KeysNodup B ∧ InfoNamesDistinct B ∧ DepthsBelowNbl B := by
  obtain ⟨_, _, hsnd, _, hp⟩ := pairs_facts hk hn hr.1
  have hB : ∀ b ∈ B.flat, ∃ p ∈ A.root.pairs B.root, p.2 = b := by
    intro b hb
    rw [← hsnd, List.mem_map] at hb
    exact hb
  refine ⟨?_, ⟨?_, ?_⟩, ?_⟩
  · have h1 : B.flat.map Data.key = (B.flat.map skel).map Prod.fst := by rw [List.map_map]; rfl
    have h2 : A.flat.map Data.key = (A.flat.map skel).map Prod.fst := by rw [List.map_map]; rfl
    unfold KeysNodup
    rw [h1, ← hs, ← h2]
    exact hk
  · intro b hb
    obtain ⟨p, hpm, rfl⟩ := hB b hb
    obtain ⟨_, hdr, hok⟩ := hp p hpm
    rw [← hdr.2.2.2.2]
    exact hok.2.1
  · rw [← hr.2.2.1]; exact hn.2
  · intro b hb
    obtain ⟨p, hpm, rfl⟩ := hB b hb
    obtain ⟨hm, hdr, _⟩ := hp p hpm
    rw [← hdr.1, ← hnbl]
    exact hd p.1 hm

/-- the diff of `(B, A)` is the diff of `(A, B)` with every entry swapped -/
theorem build_swap {A B : Topo σ} {d : List (Entry σ)} (h : build A B = (0, d)) (hs : SameSkeleton A B)
    (hnbl : A.nbl = B.nbl) : build B A = (0, d.map Entry.swap) := by
  obtain ⟨hr, rfl⟩ := build_ok_form h
  have h0 : (build B A).1 = 0 := (build_ret0_iff B A).2 hr.symm
  obtain ⟨_, h2⟩ := build_ok_form (show build B A = (0, (build B A).2) from Prod.ext h0 rfl)
  refine Prod.ext h0 ?_
  rw [h2]
  simp only [List.map_append, ← infosGo_swap, hnbl, Obj.pairs]
  rw [zip_swap A.root.flat B.root.flat, pairsDiff_swap (A.root.flat.zip B.root.flat) (zip_of_map_eq skel skel _ _ hs)]

end Hw.Diff
