/-
  Hw.Attr.CpuKindsAllowed — C15 on topologies loaded with HWLOC_TOPOLOGY_FLAG_INCLUDE_DISALLOWED.

  `TState` = the cpukinds state (`State`: kinds array + root cpuset) plus the two topology fields that
  `hwloc_topology_allow` / `hwloc_topology_restrict` look at: the INCLUDE_DISALLOWED flag and
  `topology->allowed_cpuset`.

  Modelled (hwloc/topology.c):
    hwloc_topology_allow(topology, cpuset, NULL, flags)   flag / argument checks, ALL, CUSTOM; LOCAL_RESTRICTIONS
                                                          always fails here (topologies of the engine are synthetic /
                                                          XML, never "this system")
    hwloc_topology_restrict(topology, set, 0)             EINVAL iff `set` misses the ALLOWED cpuset (not the root
                                                          cpuset); root := root ∩ set; allowed := allowed ∩ set;
                                                          hwloc_internal_cpukinds_restrict with the NEW ROOT cpuset
    dup / XML round trip (flag re-set on the importing topology) / refresh: flag and allowed cpuset are kept

  The point of the file: the allowed cpuset NEVER enters the kinds (`allow_st`, `restrictT_kinds`,
  `restrictT_covers`), it only decides whether a restrict is refused; and a history with `allow` calls is a
  history without them (`runT_eq_run`), so every C15 theorem over `run` holds for `runT`.
-/
import Hw.Attr.CpuKinds
namespace Hw
namespace CpuKinds

structure TState where
  st : State := {}
  inclDis : Bool := false      -- HWLOC_TOPOLOGY_FLAG_INCLUDE_DISALLOWED
  allowed : Nat := 0           -- topology->allowed_cpuset

/-- freshly loaded synthetic topology: nothing is disallowed -/
def tinit (root : Nat) (d : Bool) : TState := { st := { root := root }, inclDis := d, allowed := root }

/-- `hwloc_topology_allow(topology, cpuset, NULL, flags)`; `cs = none` is the NULL pointer.
    flags: 1 = ALL, 2 = LOCAL_RESTRICTIONS, 4 = CUSTOM, exactly one of them. -/
def allow (t : TState) (cs : Option Nat) (flags : Nat) : TState × Err :=
  if !t.inclDis then (t, .einval)
  else if flags = 1 then
    match cs with
    | some _ => (t, .einval)
    | none => ({ t with allowed := t.st.root }, .ok)
  else if flags = 4 then
    match cs with
    | none => (t, .ok)
    | some c => if t.st.root &&& c = 0 then (t, .einval) else ({ t with allowed := t.st.root &&& c }, .ok)
  else (t, .einval)   -- 2: not this system; 0, 3, 5, 6, 7, >= 8: invalid

/-- `hwloc_topology_restrict(topology, set, 0)` -/
def restrictT (strat : Strategy) (t : TState) (set : Nat) : TState × Err :=
  if t.allowed &&& set = 0 then (t, .einval)
  else ({ t with st := restrictKinds strat t.st (t.st.root &&& set), allowed := t.allowed &&& set }, .ok)

inductive TOp
  | op (o : Op)
  | allow (cs : Option Nat) (flags : Nat)
deriving Repr

def stepT (strat : Strategy) (t : TState) : TOp → TState
  | .op (.restrict set) => (restrictT strat t set).1
  | .op o => { t with st := step strat t.st o }
  | .allow cs fl => (allow t cs fl).1

/-- state after a history on a freshly loaded topology (flag `d`) -/
def runT (strat : Strategy) (root : Nat) (d : Bool) (h : List TOp) : TState :=
  h.foldl (stepT strat) (tinit root d)

/-- the same history seen by the cpukinds code alone: `allow` calls vanish, a restrict refused because the set
    misses the allowed cpuset becomes a restrict to the empty set (refused as well) -/
def traceT (strat : Strategy) : TState → List TOp → List Op
  | _, [] => []
  | t, .allow cs fl :: r => traceT strat (stepT strat t (.allow cs fl)) r
  | t, .op (.restrict set) :: r =>
      .restrict (if t.allowed &&& set = 0 then 0 else set) :: traceT strat (stepT strat t (.op (.restrict set))) r
  | t, .op o :: r => o :: traceT strat (stepT strat t (.op o)) r

/-- allowed ⊆ root; without the flag allowed = root; allowed is empty only on an empty topology -/
structure WfT (t : TState) : Prop where
  sub : t.allowed &&& t.st.root = t.allowed
  eq : t.inclDis = false → t.allowed = t.st.root
  ne : t.st.root ≠ 0 → t.allowed ≠ 0

end CpuKinds
end Hw
