/-
  Hw.Attr.CpuKindsRefine — the algebra of `hwloc_internal_cpukinds_register` and the refinement of the kinds
  array to an abstract map  PU ↦ (forced efficiency, infos)  (C15, strengthening).  Core Lean only.

  1. `regLoop_flat`: on a partition (non-empty, pairwise disjoint kinds) the C loop with its shrinking
     cpuset and early `break` equals a loop-free description: every old kind is classified against the
     ORIGINAL cpuset (`cls`: disjoint / wholly covered = merge / partly covered = split), old kinds are
     rewritten pointwise (`flatOld`), split-off kinds are collected in order (`flatNew`), the remainder is
     the cpuset minus all kinds (`flatRem`).
  2. `Refines ks m`: every PU of every kind has cell `m p = (forced, infos)` of that kind, uncovered PUs
     have no cell.  `internalRegister_refines` (any flags) and the steps of public histories keep it,
     against the abstract folds `AMap.regG` / `AMap.reg` / `AMap.restrict`.
-/
import Hw.Attr.CpuKindsRank
namespace Hw
namespace CpuKinds

/-! ### bit-level facts -/

theorem andnot_inter (k cs : Nat) : andnot k (cs &&& k) = andnot k cs := by
  apply Nat.eq_of_testBit_eq; intro i
  simp only [testBit_andnot, Nat.testBit_and]
  cases k.testBit i <;> cases cs.testBit i <;> rfl

theorem andnot_inter' (cs k : Nat) : andnot cs (cs &&& k) = andnot cs k := by
  apply Nat.eq_of_testBit_eq; intro i
  simp only [testBit_andnot, Nat.testBit_and]
  cases k.testBit i <;> cases cs.testBit i <;> rfl

theorem and_andnot_of_disj {cs k x : Nat} (h : k &&& x = 0) : andnot cs k &&& x = cs &&& x := by
  apply Nat.eq_of_testBit_eq; intro i
  have := (and_eq_zero_iff_bits k x).mp h i
  simp only [testBit_andnot, Nat.testBit_and]
  cases hk : k.testBit i <;> cases hx : x.testBit i <;> cases cs.testBit i <;> simp_all

theorem andnot_of_disj {cs k : Nat} (h : cs &&& k = 0) : andnot cs k = cs := by
  unfold andnot; rw [h, Nat.xor_zero]

theorem andnot_self_eq_zero (b : Nat) : andnot b b = 0 := by
  unfold andnot; rw [Nat.and_self, Nat.xor_self]

/-! ### classification of an old kind against the registered cpuset -/

inductive Cls | split | merge | diff
deriving DecidableEq, Repr

/-- `x` (a kind, non-empty) against `cs`: disjoint, wholly inside `cs` (CONTAINS / EQUAL), or partly inside
    (INTERSECTS / INCLUDED) -/
def cls (cs x : Nat) : Cls :=
  if cs &&& x = 0 then .diff else if cs &&& x = x then .merge else .split

theorem cls_of_split {cs x : Nat} (hcs : cs ≠ 0)
    (h : rel cs x = .intersects ∨ rel cs x = .included) : cls cs x = .split := by
  have ⟨h1, h2⟩ := split_nonempty hcs h
  unfold cls
  rw [if_neg h1, if_neg]
  intro e
  rw [e, andnot_self_eq_zero] at h2
  exact h2 rfl

theorem cls_of_merge {cs x : Nat} (hx : x ≠ 0)
    (h : rel cs x = .contains ∨ rel cs x = .equal) : cls cs x = .merge := by
  have e : cs &&& x = x := (and_eq_right_iff_bits cs x).mpr (merge_sub h)
  unfold cls
  rw [e, if_neg hx, if_pos rfl]

theorem cls_of_diff {cs x : Nat} (h : rel cs x = .different) : cls cs x = .diff := by
  unfold cls; rw [if_pos (different_disj h)]

/-! ### the loop-free description of the register loop -/

def flatOld (f : Int) (infos : List Info) (o : Bool) (cs : Nat) (k : Kind) : Kind :=
  match cls cs k.cpuset with
  | .diff => k
  | .merge => { k with infos := addInfos k.infos infos,
                       forced := if o || k.forced = -1 then f else k.forced }
  | .split => { k with cpuset := andnot k.cpuset (cs &&& k.cpuset) }

def flatNew (f : Int) (infos : List Info) (cs : Nat) (k : Kind) : Option Kind :=
  match cls cs k.cpuset with
  | .split => some { cpuset := cs &&& k.cpuset, eff := -1, forced := f,
                     infos := addInfos (addInfos [] k.infos) infos }
  | _ => none

def flatRem (cs : Nat) (ks : List Kind) : Nat := ks.foldl (fun c k => andnot c k.cpuset) cs

theorem flatOld_congr (f : Int) (infos : List Info) (o : Bool) {cs cs' : Nat} (k : Kind)
    (h : cs' &&& k.cpuset = cs &&& k.cpuset) : flatOld f infos o cs' k = flatOld f infos o cs k := by
  simp only [flatOld, cls, h]

theorem flatNew_congr (f : Int) (infos : List Info) {cs cs' : Nat} (k : Kind)
    (h : cs' &&& k.cpuset = cs &&& k.cpuset) : flatNew f infos cs' k = flatNew f infos cs k := by
  simp only [flatNew, cls, h]

theorem flatRem_zero (ks : List Kind) : flatRem 0 ks = 0 := by
  unfold flatRem
  induction ks with
  | nil => rfl
  | cons k ks ih =>
    rw [List.foldl_cons]
    have : andnot 0 k.cpuset = 0 := by unfold andnot; simp
    rw [this]; exact ih

theorem flatRem_cons (cs : Nat) (k : Kind) (ks : List Kind) :
    flatRem cs (k :: ks) = flatRem (andnot cs k.cpuset) ks := rfl

theorem flatRem_bits (ks : List Kind) : ∀ (cs p : Nat),
    (flatRem cs ks).testBit p = true ↔ (cs.testBit p = true ∧ ¬ Covers ks p) := by
  induction ks with
  | nil => intro cs p; simp [flatRem, Covers]
  | cons k ks ih =>
    intro cs p
    rw [flatRem_cons, ih, covers_cons, testBit_andnot]
    cases cs.testBit p <;> cases k.cpuset.testBit p <;> simp

theorem filterMap_congr' {α β : Type} {g g' : α → Option β} {l : List α} (h : ∀ x ∈ l, g x = g' x) :
    l.filterMap g = l.filterMap g' := by
  induction l with
  | nil => rfl
  | cons a l ih =>
    rw [List.filterMap_cons, List.filterMap_cons, h a List.mem_cons_self,
      ih (fun x hx => h x (List.mem_cons_of_mem _ hx))]

theorem regLoop_flat (f : Int) (infos : List Info) (o : Bool) :
    ∀ (ks : List Kind) (cs : Nat), NonEmpty ks → Disjoint ks →
      regLoop f infos o ks cs =
        (ks.map (flatOld f infos o cs), ks.filterMap (flatNew f infos cs), flatRem cs ks) := by
  intro ks
  induction ks with
  | nil => intro cs _ _; rfl
  | cons k ks ih =>
    intro cs hne hdj
    have hne' : NonEmpty ks := fun x hx => hne x (List.mem_cons_of_mem _ hx)
    have hdj' : Disjoint ks := (List.pairwise_cons.mp hdj).2
    have hk0 : k.cpuset ≠ 0 := hne k List.mem_cons_self
    have hkx : ∀ x ∈ ks, k.cpuset &&& x.cpuset = 0 := (List.pairwise_cons.mp hdj).1
    by_cases hcs : cs = 0
    · subst hcs
      rw [regLoop_break, flatRem_zero]
      have h1 : ∀ x : Kind, flatOld f infos o 0 x = x := by
        intro x; simp [flatOld, cls]
      have h2 : ∀ x : Kind, flatNew f infos 0 x = none := by
        intro x; simp [flatNew, cls]
      congr 1
      · rw [List.map_congr_left (fun x _ => h1 x), List.map_id']
      · congr 1
        rw [filterMap_congr' (fun x _ => h2 x)]
        simp
    · -- tails: the shrunk cpuset meets the later kinds exactly as the original does
      have tail : ∀ cs' : Nat, (∀ x ∈ ks, cs' &&& x.cpuset = cs &&& x.cpuset) →
          ks.map (flatOld f infos o cs') = ks.map (flatOld f infos o cs) ∧
          ks.filterMap (flatNew f infos cs') = ks.filterMap (flatNew f infos cs) := by
        intro cs' h
        exact ⟨List.map_congr_left (fun x hx => flatOld_congr f infos o x (h x hx)),
               filterMap_congr' (fun x hx => flatNew_congr f infos x (h x hx))⟩
      rcases rel_trichotomy cs k.cpuset with hr | hr | hr
      · rw [regLoop_split f infos o k ks cs hcs hr, ih _ hne' hdj']
        have hc := cls_of_split hcs hr
        have ⟨t1, t2⟩ := tail (andnot cs k.cpuset) (fun x hx => and_andnot_of_disj (hkx x hx))
        simp only [List.map_cons, List.filterMap_cons, flatOld, flatNew, hc, flatRem_cons,
          andnot_inter', t1, t2]
      · rw [regLoop_merge f infos o k ks cs hcs hr, ih _ hne' hdj']
        have hc := cls_of_merge hk0 hr
        have ⟨t1, t2⟩ := tail (andnot cs k.cpuset) (fun x hx => and_andnot_of_disj (hkx x hx))
        simp only [List.map_cons, List.filterMap_cons, flatOld, flatNew, hc, t1, t2, flatRem_cons]
      · rw [regLoop_diff f infos o k ks cs hcs hr, ih _ hne' hdj']
        have hc := cls_of_diff hr
        simp only [List.map_cons, List.filterMap_cons, flatOld, flatNew, hc, flatRem_cons,
          andnot_of_disj (different_disj hr)]

/-! ### the abstract map  PU ↦ (forced efficiency, infos) -/

abbrev Cell := FI
abbrev AMap := Nat → Option Cell

/-- the kinds array refines the map: every PU of a kind has that kind's cell, uncovered PUs have none -/
structure Refines (ks : List Kind) (m : AMap) : Prop where
  cell : ∀ k ∈ ks, ∀ p, k.cpuset.testBit p = true → m p = some k.fi
  none : ∀ p, ¬ Covers ks p → m p = none

/-- infos already attached to PU `p` -/
def AMap.infosAt (m : AMap) (p : Nat) : List Info :=
  match m p with
  | none => []
  | some c => c.2

/-- abstract registration through the PUBLIC call (forced efficiency always overwritten): every PU of `cs`
    gets the new forced efficiency and the union (in order, without exact duplicates) of its infos with the
    new ones; other PUs are untouched -/
def AMap.reg (m : AMap) (cs : Nat) (f : Int) (infos : List Info) : AMap := fun p =>
  if cs.testBit p = true then some (f, addInfos (m.infosAt p) infos) else m p

/-- abstract restrict -/
def AMap.restrict (m : AMap) (r : Nat) : AMap := fun p => if r.testBit p = true then m p else none

/-- the kind of PU `p` lies wholly inside `cs` (merge branch) -/
def wholeKind (ks : List Kind) (cs p : Nat) : Bool :=
  ks.any (fun k => k.cpuset.testBit p && decide (cs &&& k.cpuset = k.cpuset))

/-- abstract registration through `hwloc_internal_cpukinds_register` with the OVERWRITE flag `o`.
    Infos as in `AMap.reg`.  Forced efficiency: the rule "keep an already known value unless OVERWRITE" is
    applied by the C code only when the PU's whole kind is covered (CONTAINS / EQUAL); when the kind is
    split (INTERSECTS / INCLUDED) the split-off kind takes the new value unconditionally, even UNKNOWN. -/
def AMap.regG (ks : List Kind) (o : Bool) (m : AMap) (cs : Nat) (f : Int) (infos : List Info) : AMap := fun p =>
  if cs.testBit p = true then
    match m p with
    | none => some (f, addInfos [] infos)
    | some c => some (if o || c.1 = -1 || !wholeKind ks cs p then f else c.1, addInfos c.2 infos)
  else m p

theorem AMap.regG_true (ks : List Kind) (m : AMap) (cs : Nat) (f : Int) (infos : List Info) :
    AMap.regG ks true m cs f infos = m.reg cs f infos := by
  funext p
  unfold AMap.regG AMap.reg AMap.infosAt
  cases m p <;> simp

/-- two kinds of a partition sharing a PU are the same array element -/
theorem kind_unique {ks : List Kind} (hdj : Disjoint ks) {a b : Kind} (ha : a ∈ ks) (hb : b ∈ ks) {p : Nat}
    (hpa : a.cpuset.testBit p = true) (hpb : b.cpuset.testBit p = true) : a = b := by
  induction ks with
  | nil => cases ha
  | cons x xs ih =>
    have hx := List.pairwise_cons.mp hdj
    rcases List.mem_cons.mp ha with rfl | ha' <;> rcases List.mem_cons.mp hb with rfl | hb'
    · rfl
    · exact absurd hpb (fun h => (and_eq_zero_iff_bits _ _).mp (hx.1 b hb') p hpa h)
    · exact absurd hpa (fun h => (and_eq_zero_iff_bits _ _).mp (hx.1 a ha') p hpb h)
    · exact ih hx.2 ha' hb'

theorem cls_diff_bits {cs x : Nat} (h : cls cs x = .diff) {p : Nat} (hp : x.testBit p = true) :
    cs.testBit p = false := by
  unfold cls at h
  split at h
  · rename_i hz
    cases hc : cs.testBit p
    · rfl
    · exact absurd hp (fun hh => (and_eq_zero_iff_bits _ _).mp hz p hc hh)
  · split at h <;> cases h

theorem cls_merge_bits {cs x : Nat} (h : cls cs x = .merge) : cs &&& x = x := by
  unfold cls at h
  split at h
  · cases h
  · split at h
    · assumption
    · cases h

theorem cls_split_bits {cs x : Nat} (h : cls cs x = .split) : cs &&& x ≠ x := by
  unfold cls at h
  split at h
  · cases h
  · split at h
    · cases h
    · assumption

theorem mem_flatNew {f : Int} {infos : List Info} {cs : Nat} {k k' : Kind} (h : flatNew f infos cs k = some k') :
    cls cs k.cpuset = .split ∧
    k' = { cpuset := cs &&& k.cpuset, eff := -1, forced := f, infos := addInfos (addInfos [] k.infos) infos } := by
  unfold flatNew at h
  split at h
  · rename_i hc; injection h with h; exact ⟨hc, h.symm⟩
  · cases h

/-- kinds array after a valid `hwloc_internal_cpukinds_register`, loop-free -/
theorem internalRegister_kinds_flat (st : State) (cs : Nat) (f : Int) (infos : List Info) (fl : Nat)
    (hcs : cs ≠ 0) (hfl : fl / 2 = 0) (hne : NonEmpty st.kinds) (hdj : Disjoint st.kinds) :
    (internalRegister st cs f infos fl).1.kinds =
      st.kinds.map (flatOld f infos (decide (fl % 2 = 1)) cs) ++
      (st.kinds.filterMap (flatNew f infos cs) ++
        (if flatRem cs st.kinds = 0 then [] else
          [{ cpuset := flatRem cs st.kinds, eff := -1, forced := f, infos := addInfos [] infos }])) := by
  simp [internalRegister, hcs, hfl, regAdded, regLoop_flat f infos _ st.kinds cs hne hdj]

/-- ONE registration through the internal entry point (any flags, any forced efficiency, any infos) on a
    partition whose info lists are duplicate-free: the new array refines `AMap.regG` of the old map -/
theorem internalRegister_refines {st : State} {m : AMap} (hne : NonEmpty st.kinds) (hdj : Disjoint st.kinds)
    (hnd : InfosNodup st.kinds) (R : Refines st.kinds m)
    (cs : Nat) (f : Int) (infos : List Info) (fl : Nat) (hcs : cs ≠ 0) (hfl : fl / 2 = 0) :
    Refines (internalRegister st cs f infos fl).1.kinds
      (AMap.regG st.kinds (decide (fl % 2 = 1)) m cs f infos) := by
  rw [internalRegister_kinds_flat st cs f infos fl hcs hfl hne hdj]
  generalize decide (fl % 2 = 1) = o
  constructor
  · intro k' hk' p hp
    rcases List.mem_append.mp hk' with hk' | hk'
    · -- a rewritten old kind
      obtain ⟨k, hk, e⟩ := List.mem_map.mp hk'
      subst e
      unfold flatOld at hp ⊢
      cases hc : cls cs k.cpuset
      · -- split: the PUs outside cs keep their cell
        simp only [hc] at hp ⊢
        rw [testBit_andnot, Nat.testBit_and] at hp
        have hpk : k.cpuset.testBit p = true := by cases h : k.cpuset.testBit p <;> simp_all
        have hpc : cs.testBit p = false := by cases h : cs.testBit p <;> simp_all
        unfold AMap.regG
        rw [if_neg (by simp [hpc])]
        exact R.cell k hk p hpk
      · -- merge
        simp only [hc] at hp ⊢
        have hpk : k.cpuset.testBit p = true := hp
        have hpc : cs.testBit p = true := by
          have := (and_eq_right_iff_bits cs k.cpuset).mp (cls_merge_bits hc) p hpk
          exact this
        have hw : wholeKind st.kinds cs p = true := by
          unfold wholeKind
          rw [List.any_eq_true]
          exact ⟨k, hk, by simp [hpk, cls_merge_bits hc]⟩
        unfold AMap.regG
        rw [if_pos hpc, R.cell k hk p hpk]
        simp only [Kind.fi, hw, Bool.not_true, Bool.or_false]
        by_cases h1 : o = true <;> by_cases h2 : k.forced = -1 <;> simp [h1, h2]
      · -- disjoint
        simp only [hc] at hp ⊢
        unfold AMap.regG
        rw [if_neg (by simp [cls_diff_bits hc hp])]
        exact R.cell k hk p hp
    · rcases List.mem_append.mp hk' with hk' | hk'
      · -- a split-off kind
        obtain ⟨k, hk, e⟩ := List.mem_filterMap.mp hk'
        obtain ⟨hc, e⟩ := mem_flatNew e
        subst e
        have hp' : (cs &&& k.cpuset).testBit p = true := hp
        rw [Nat.testBit_and, Bool.and_eq_true] at hp'
        have hw : wholeKind st.kinds cs p = false := by
          unfold wholeKind
          rw [List.any_eq_false]
          intro x hx hh
          rw [Bool.and_eq_true, decide_eq_true_eq] at hh
          have : x = k := kind_unique hdj hx hk hh.1 hp'.2
          subst this
          exact cls_split_bits hc hh.2
        unfold AMap.regG
        rw [if_pos hp'.1, R.cell k hk p hp'.2]
        simp [Kind.fi, hw, addInfos_nil_of_nodup _ (hnd k hk)]
      · -- the remainder kind
        split at hk'
        · cases hk'
        · rw [List.mem_singleton.mp hk'] at hp ⊢
          have hp' : (flatRem cs st.kinds).testBit p = true := hp
          rw [flatRem_bits] at hp'
          unfold AMap.regG
          rw [if_pos hp'.1, R.none p hp'.2]
          rfl
  · intro p hnc
    -- an uncovered PU was uncovered before and is outside cs
    have hold : ¬ Covers st.kinds p := by
      rintro ⟨k, hk, hpk⟩
      apply hnc
      rw [covers_append, covers_append]
      cases hc : cls cs k.cpuset
      · cases hpc : cs.testBit p
        · left
          refine ⟨flatOld f infos o cs k, List.mem_map_of_mem hk, ?_⟩
          simp only [flatOld, hc, testBit_andnot, Nat.testBit_and, hpk, hpc]; rfl
        · right; left
          refine ⟨{ cpuset := cs &&& k.cpuset, eff := -1, forced := f,
                    infos := addInfos (addInfos [] k.infos) infos },
            List.mem_filterMap.mpr ⟨k, hk, by simp only [flatNew, hc]⟩, ?_⟩
          show (cs &&& k.cpuset).testBit p = true
          rw [Nat.testBit_and, hpk, hpc]; rfl
      · left
        refine ⟨flatOld f infos o cs k, List.mem_map_of_mem hk, ?_⟩
        simp only [flatOld, hc]; exact hpk
      · left
        refine ⟨flatOld f infos o cs k, List.mem_map_of_mem hk, ?_⟩
        simp only [flatOld, hc]; exact hpk
    have hcsp : cs.testBit p = false := by
      cases hpc : cs.testBit p
      · rfl
      · exfalso; apply hnc
        rw [covers_append, covers_append]
        right; right
        have hb : (flatRem cs st.kinds).testBit p = true := (flatRem_bits _ _ _).mpr ⟨hpc, hold⟩
        have hz : flatRem cs st.kinds ≠ 0 := (ne_zero_iff_bits _).mpr ⟨p, hb⟩
        rw [if_neg hz]
        exact ⟨_, List.mem_singleton.mpr rfl, hb⟩
    unfold AMap.regG
    rw [if_neg (by simp [hcsp])]
    exact R.none p hold

/-! ### the other steps -/

theorem Refines.transfer {l l' : List Kind} (h : SameCore l l') {m : AMap} (R : Refines l m) : Refines l' m where
  cell := forall_core h (P := fun c => ∀ p, c.1.testBit p = true → m p = some (c.2.1, c.2.2)) R.cell
  none := fun p hn => R.none p (fun hc => hn (exists_core h (P := fun c => c.1.testBit p = true) hc))

theorem refines_nil : Refines [] (fun _ => none) := ⟨by simp, fun _ _ => rfl⟩

/-- restrict: the map of the restricted array is the restriction of the map (before re-ranking) -/
theorem restrict_refines {ks : List Kind} {m : AMap} (R : Refines ks m) (r : Nat) :
    Refines ((ks.map (fun k => { k with cpuset := k.cpuset &&& r })).filter (fun k => decide (k.cpuset ≠ 0)))
      (m.restrict r) := by
  constructor
  · intro k hk p hp
    simp only [List.mem_filter, List.mem_map] at hk
    obtain ⟨⟨k0, hk0, e⟩, _⟩ := hk
    subst e
    have hp' : (k0.cpuset &&& r).testBit p = true := hp
    rw [Nat.testBit_and, Bool.and_eq_true] at hp'
    unfold AMap.restrict
    rw [if_pos hp'.2]
    exact R.cell k0 hk0 p hp'.1
  · intro p hn
    unfold AMap.restrict
    split
    · rename_i hr
      apply R.none
      rintro ⟨k, hk, hpk⟩
      apply hn
      have hb : (k.cpuset &&& r).testBit p = true := by rw [Nat.testBit_and, hpk, hr]; rfl
      refine ⟨{ k with cpuset := k.cpuset &&& r }, ?_, hb⟩
      simp only [List.mem_filter, List.mem_map, decide_eq_true_eq]
      exact ⟨⟨k, hk, rfl⟩, (ne_zero_iff_bits _).mpr ⟨p, hb⟩⟩
    · rfl

/-! ### histories of public calls against the abstract fold -/

/-- abstract state: root cpuset and the map PU ↦ (forced efficiency, infos) -/
structure Abs where
  root : Nat
  map : AMap := fun _ => none

/-- abstract semantics of one public call: a valid register updates the cells of its PUs, a valid restrict
    restricts the map; dup / XML round trip / refresh and every rejected call leave it alone -/
def absStep (a : Abs) : Op → Abs
  | .register (some cs) f i 0 =>
    if cs = 0 then a else { a with map := a.map.reg cs (if f < 0 then -1 else f) i }
  | .register _ _ _ _ => a
  | .restrict set =>
    if a.root &&& set = 0 then a
    else { root := a.root &&& set, map := a.map.restrict (a.root &&& set) }
  | _ => a

def absRun (root : Nat) (h : List Op) : Abs := h.foldl absStep { root := root }

theorem register_refines (strat : Strategy) {st : State} {g : Ghost} (H : Inv st g) {a : Abs}
    (R : Refines st.kinds a.map) (hr : a.root = st.root)
    (cs : Option Nat) (f : Int) (infos : List Info) (fl : Nat) :
    Refines (register strat st cs f infos fl).1.kinds (absStep a (.register cs f infos fl)).map ∧
      (absStep a (.register cs f infos fl)).root = (register strat st cs f infos fl).1.root := by
  by_cases hfl : fl = 0
  · subst hfl
    cases cs with
    | none => simpa [register, absStep] using ⟨R, hr⟩
    | some c =>
      by_cases hc : c = 0
      · subst hc; simpa [register, absStep] using ⟨R, hr⟩
      · have hg : absStep a (.register (some c) f infos 0) =
            { a with map := a.map.reg c (if f < 0 then -1 else f) infos } := by
          simp [absStep, hc]
        have hs : (register strat st (some c) f infos 0).1 =
            { (internalRegister st c (if f < 0 then -1 else f) infos 1).1 with
              kinds := rank strat (internalRegister st c (if f < 0 then -1 else f) infos 1).1.kinds } := by
          simp [register, hc]
        rw [hg, hs]
        have K := internalRegister_refines H.k.ne H.k.dj H.k.nd R c (if f < 0 then -1 else f) infos 1 hc
          (by decide)
        have h1 : decide (1 % 2 = 1) = true := by decide
        rw [h1, AMap.regG_true] at K
        refine ⟨K.transfer (rank_sameCore strat _), ?_⟩
        show a.root = (internalRegister st c (if f < 0 then -1 else f) infos 1).1.root
        rw [internalRegister_root]; exact hr
  · have hs : (register strat st cs f infos fl).1 = st := by simp [register, hfl]
    have hg : absStep a (.register cs f infos fl) = a := by
      cases cs with
      | none => rfl
      | some c => cases fl with
        | zero => exact absurd rfl hfl
        | succ n => rfl
    rw [hs, hg]; exact ⟨R, hr⟩

theorem restrictKinds_refines (strat : Strategy) {st : State} {m : AMap} (R : Refines st.kinds m) (r : Nat) :
    Refines (restrictKinds strat st r).kinds (m.restrict r) := by
  have K := restrict_refines R r
  unfold restrictKinds
  simp only []
  split
  · exact K
  · exact K.transfer (rank_sameCore strat _)

theorem restrictKinds_root (strat : Strategy) (st : State) (r : Nat) : (restrictKinds strat st r).root = r := by
  unfold restrictKinds
  simp only []
  split <;> rfl

theorem step_refines (strat : Strategy) {st : State} {g : Ghost} (H : Inv st g) {a : Abs}
    (R : Refines st.kinds a.map) (hr : a.root = st.root) (op : Op) :
    Refines (step strat st op).kinds (absStep a op).map ∧ (absStep a op).root = (step strat st op).root := by
  cases op with
  | register cs f i fl => exact register_refines strat H R hr cs f i fl
  | restrict set =>
    by_cases h : st.root &&& set = 0
    · have h1 : (restrict strat st set).1 = st := by simp [restrict, h]
      have h2 : absStep a (.restrict set) = a := by
        show (if a.root &&& set = 0 then a else _) = _
        rw [hr, if_pos h]
      show Refines (restrict strat st set).1.kinds _ ∧ _ = (restrict strat st set).1.root
      rw [h1, h2]; exact ⟨R, hr⟩
    · have h1 : (restrict strat st set).1 = restrictKinds strat st (st.root &&& set) := by simp [restrict, h]
      have h2 : absStep a (.restrict set) =
          { root := st.root &&& set, map := a.map.restrict (st.root &&& set) } := by
        show (if a.root &&& set = 0 then a else _) = _
        rw [hr, if_neg h]
      show Refines (restrict strat st set).1.kinds _ ∧ _ = (restrict strat st set).1.root
      rw [h1, h2]
      exact ⟨restrictKinds_refines strat R _, (restrictKinds_root strat st _).symm⟩
  | dup =>
    exact ⟨R.transfer (SameCore.of_map (fun k => { k with dupd := true }) (fun _ => rfl)), hr⟩
  | xml =>
    have ⟨h1, _, _, h4⟩ := xmlReload_eq strat H
    show Refines (xmlReload strat st).kinds a.map ∧ a.root = (xmlReload strat st).root
    rw [h1, h4]
    exact ⟨R.transfer ((SameCore.of_map fresh (fun _ => rfl)).trans (rank_sameCore strat _)), hr⟩
  | refresh => exact ⟨R.transfer (rank_sameCore strat _), hr⟩

/-- REFINEMENT over histories: after any history of public calls the kinds array refines the abstract map
    obtained by folding the registrations / restricts -/
theorem run_refines (strat : Strategy) (root : Nat) (h : List Op) :
    Refines (run strat root h).kinds (absRun root h).map ∧ (absRun root h).root = (run strat root h).root := by
  unfold run absRun
  suffices H : ∀ (st : State) (g : Ghost) (a : Abs), Inv st g → Refines st.kinds a.map → a.root = st.root →
      Refines (h.foldl (step strat) st).kinds (h.foldl absStep a).map ∧
        (h.foldl absStep a).root = (h.foldl (step strat) st).root from
    H _ _ _ (init_inv root) refines_nil rfl
  induction h with
  | nil => intro st g a _ R hr; exact ⟨R, hr⟩
  | cons op ops ih =>
    intro st g a H R hr
    have ⟨R', hr'⟩ := step_refines strat H R hr op
    exact ih _ _ _ (step_inv strat H op) R' hr'

/-! ### the map read back from the array -/

/-- cell of PU `p` read from the array: the first (on a partition: the only) kind containing `p` -/
def cellAt (ks : List Kind) (p : Nat) : Option Cell :=
  (ks.find? (fun k => k.cpuset.testBit p)).map Kind.fi

theorem cellAt_eq {ks : List Kind} {m : AMap} (R : Refines ks m) (p : Nat) : cellAt ks p = m p := by
  unfold cellAt
  cases hf : ks.find? (fun k => k.cpuset.testBit p) with
  | none =>
    rw [List.find?_eq_none] at hf
    rw [R.none p]; · rfl
    rintro ⟨k, hk, hp⟩
    exact hf k hk hp
  | some k =>
    have hk := List.mem_of_find?_eq_some hf
    have hp := List.find?_some hf
    rw [R.cell k hk p hp]; rfl

/-! ### properties of the abstract fold: coverage, info sets, duplicate-freeness, forced values -/

theorem AMap.reg_ne_none (m : AMap) (cs : Nat) (f : Int) (infos : List Info) (p : Nat) :
    m.reg cs f infos p ≠ none ↔ (cs.testBit p = true ∨ m p ≠ none) := by
  unfold AMap.reg
  split
  · rename_i h; simp [h]
  · rename_i h; simp [h]

/-- link to the reference semantics `Ghost` used by the earlier theorems: the domain of the abstract map is the
    reference coverage and the info SET of a cell is the set of owed pairs -/
structure AbsGhost (a : Abs) (g : Ghost) : Prop where
  root : a.root = g.root
  dom : ∀ p, a.map p ≠ none ↔ g.cov.testBit p = true
  inf : ∀ p c, a.map p = some c → ∀ x, x ∈ c.2 ↔ g.ow p x
  nd : ∀ p c, a.map p = some c → c.2.Nodup
  owz : ∀ p x, g.ow p x → g.cov.testBit p = true

theorem absGhost_step {a : Abs} {g : Ghost} (H : AbsGhost a g) (op : Op) :
    AbsGhost (absStep a op) (ghostStep g op) := by
  cases op with
  | register cs f i fl =>
    by_cases hfl : fl = 0
    · subst hfl
      cases cs with
      | none => exact H
      | some c =>
        by_cases hc : c = 0
        · subst hc; simpa [absStep, ghostStep] using H
        · have h1 : absStep a (.register (some c) f i 0) =
              { a with map := a.map.reg c (if f < 0 then -1 else f) i } := by simp [absStep, hc]
          have h2 : ghostStep g (.register (some c) f i 0) =
              { g with cov := g.cov ||| c, ow := fun p x => g.ow p x ∨ (c.testBit p = true ∧ x ∈ i) } := by
            simp [ghostStep, hc]
          rw [h1, h2]
          refine ⟨H.root, ?_, ?_, ?_, ?_⟩
          · intro p
            show a.map.reg c _ i p ≠ none ↔ (g.cov ||| c).testBit p = true
            rw [AMap.reg_ne_none, Nat.testBit_or, H.dom p]
            cases g.cov.testBit p <;> cases c.testBit p <;> simp
          · intro p cell hcell x
            change a.map.reg c _ i p = some cell at hcell
            show x ∈ cell.2 ↔ (g.ow p x ∨ (c.testBit p = true ∧ x ∈ i))
            unfold AMap.reg at hcell
            split at hcell
            · rename_i hp
              injection hcell with hcell
              subst hcell
              simp only [mem_addInfos, hp, true_and]
              unfold AMap.infosAt
              cases hm : a.map p with
              | none =>
                have : ¬ g.ow p x := fun ho => by
                  have := (H.dom p).mpr (H.owz p x ho)
                  exact this hm
                simp [this]
              | some c0 => simp only []; rw [H.inf p c0 hm x]
            · rename_i hp
              rw [H.inf p cell hcell x]
              simp [hp]
          · intro p cell hcell
            change a.map.reg c _ i p = some cell at hcell
            unfold AMap.reg at hcell
            split at hcell
            · injection hcell with hcell
              subst hcell
              apply nodup_addInfos
              unfold AMap.infosAt
              cases hm : a.map p with
              | none => exact List.nodup_nil
              | some c0 => exact H.nd p c0 hm
            · exact H.nd p cell hcell
          · intro p x hx
            show (g.cov ||| c).testBit p = true
            rw [Nat.testBit_or]
            rcases hx with hx | hx
            · rw [H.owz p x hx]; rfl
            · rw [hx.1]; simp
    · have h1 : absStep a (.register cs f i fl) = a := by
        cases cs with
        | none => rfl
        | some c => cases fl with
          | zero => exact absurd rfl hfl
          | succ n => rfl
      have h2 : ghostStep g (.register cs f i fl) = g := by
        cases cs with
        | none => rfl
        | some c => cases fl with
          | zero => exact absurd rfl hfl
          | succ n => rfl
      rw [h1, h2]; exact H
  | restrict set =>
    by_cases h : a.root &&& set = 0
    · have h1 : absStep a (.restrict set) = a := by
        show (if a.root &&& set = 0 then a else _) = _
        rw [if_pos h]
      have h2 : ghostStep g (.restrict set) = g := by
        show (if g.root &&& set = 0 then g else _) = _
        rw [← H.root, if_pos h]
      rw [h1, h2]; exact H
    · have h1 : absStep a (.restrict set) =
          { root := a.root &&& set, map := a.map.restrict (a.root &&& set) } := by
        show (if a.root &&& set = 0 then a else _) = _
        rw [if_neg h]
      have h2 : ghostStep g (.restrict set) =
          { root := a.root &&& set, cov := g.cov &&& (a.root &&& set),
            ow := fun p x => g.ow p x ∧ (a.root &&& set).testBit p = true } := by
        show (if g.root &&& set = 0 then g else _) = _
        rw [← H.root, if_neg h]
      rw [h1, h2]
      clear h1 h2 h
      generalize a.root &&& set = r
      refine ⟨rfl, ?_, ?_, ?_, ?_⟩
      · intro p
        show a.map.restrict r p ≠ none ↔ (g.cov &&& r).testBit p = true
        unfold AMap.restrict
        rw [Nat.testBit_and]
        split
        · rename_i hp; rw [H.dom p]; simp [hp]
        · rename_i hp; simp [hp]
      · intro p cell hcell x
        change a.map.restrict _ p = some cell at hcell
        unfold AMap.restrict at hcell
        split at hcell
        · rename_i hp
          show x ∈ cell.2 ↔ (g.ow p x ∧ _)
          rw [H.inf p cell hcell x]; simp [hp]
        · cases hcell
      · intro p cell hcell
        change a.map.restrict _ p = some cell at hcell
        unfold AMap.restrict at hcell
        split at hcell
        · exact H.nd p cell hcell
        · cases hcell
      · intro p x hx
        show (g.cov &&& r).testBit p = true
        rw [Nat.testBit_and, H.owz p x hx.1, hx.2]; rfl
  | dup => exact H
  | xml => exact H
  | refresh => exact H

theorem absGhost_run (root : Nat) (h : List Op) : AbsGhost (absRun root h) (runGhost root h) := by
  unfold absRun runGhost
  suffices H : ∀ (a : Abs) (g : Ghost), AbsGhost a g → AbsGhost (h.foldl absStep a) (h.foldl ghostStep g) from
    H _ _ ⟨rfl, (by intro p; simp [Nat.zero_testBit]), (fun p c hc => absurd hc (by simp)),
      (fun p c hc => absurd hc (by simp)), fun _ _ h => h.elim⟩
  induction h with
  | nil => intro a g H; exact H
  | cons op ops ih => intro a g H; exact ih _ _ (absGhost_step H op)

/-- every forced efficiency in the abstract map is the (normalised) forced efficiency of some register call of
    the history: any predicate true of all of those is true of every cell -/
theorem abs_forced_P (P : Int → Prop) (root : Nat) (h : List Op)
    (hP : ∀ cs f i fl, Op.register cs f i fl ∈ h → P (if f < 0 then -1 else f)) :
    ∀ p c, (absRun root h).map p = some c → P c.1 := by
  unfold absRun
  suffices H : ∀ (a : Abs), (∀ p c, a.map p = some c → P c.1) →
      ∀ p c, (h.foldl absStep a).map p = some c → P c.1 from
    H _ (fun p c hc => absurd hc (by simp))
  induction h with
  | nil => intro a Ha; exact Ha
  | cons op ops ih =>
    intro a Ha
    apply ih (fun cs f i fl hm => hP cs f i fl (List.mem_cons_of_mem _ hm))
    cases op with
    | register cs f i fl =>
      by_cases hfl : fl = 0
      · subst hfl
        cases cs with
        | none => exact Ha
        | some c =>
          by_cases hc : c = 0
          · subst hc; simpa [absStep] using Ha
          · have h1 : absStep a (.register (some c) f i 0) =
                { a with map := a.map.reg c (if f < 0 then -1 else f) i } := by simp [absStep, hc]
            rw [h1]
            intro p cell hcell
            change a.map.reg c _ i p = some cell at hcell
            unfold AMap.reg at hcell
            split at hcell
            · injection hcell with hcell
              subst hcell
              exact hP (some c) f i 0 List.mem_cons_self
            · exact Ha p cell hcell
      · have h1 : absStep a (.register cs f i fl) = a := by
          cases cs with
          | none => rfl
          | some c => cases fl with
            | zero => exact absurd rfl hfl
            | succ n => rfl
        rw [h1]; exact Ha
    | restrict set =>
      show ∀ p c, (if a.root &&& set = 0 then a else _).map p = some c → P c.1
      split
      · exact Ha
      · intro p cell hcell
        change a.map.restrict _ p = some cell at hcell
        unfold AMap.restrict at hcell
        split at hcell
        · exact Ha p cell hcell
        · cases hcell
    | dup => exact Ha
    | xml => exact Ha
    | refresh => exact Ha

/-- the forced efficiency of every kind after a history satisfies any predicate satisfied by the (normalised)
    forced efficiencies passed to the register calls of that history -/
theorem run_forced_P (P : Int → Prop) (strat : Strategy) (root : Nat) (h : List Op)
    (hP : ∀ cs f i fl, Op.register cs f i fl ∈ h → P (if f < 0 then -1 else f)) :
    ∀ k ∈ (run strat root h).kinds, P k.forced := by
  intro k hk
  obtain ⟨p, hp⟩ := (ne_zero_iff_bits _).mp ((run_inv strat root h).k.ne k hk)
  have := abs_forced_P P root h hP p k.fi ((run_refines strat root h).1.cell k hk p hp)
  exact this

/-! ### get_by_cpuset, exactly -/

/-- on a partition a non-empty set lies inside at most one kind -/
theorem sub_unique {ks : List Kind} (hdj : Disjoint ks) {s : Nat} (hs : s ≠ 0) (i j : Nat)
    (hi : i < ks.length) (hj : j < ks.length) (h1 : Sub s ks[i].cpuset) (h2 : Sub s ks[j].cpuset) : i = j := by
  obtain ⟨p, hp⟩ := (ne_zero_iff_bits s).mp hs
  have H := List.pairwise_iff_getElem.mp hdj
  rcases Nat.lt_trichotomy i j with hij | hij | hij
  · exact absurd (h2 p hp) (fun hh => (and_eq_zero_iff_bits _ _).mp (H i j hi hj hij) p (h1 p hp) hh)
  · exact hij
  · exact absurd (h1 p hp) (fun hh => (and_eq_zero_iff_bits _ _).mp (H j i hj hi hij) p (h2 p hp) hh)

theorem byCpusetLoop_exact (s : Nat) (hs : s ≠ 0) (ks : List Kind) (hne : NonEmpty ks) (hdj : Disjoint ks) :
    (∀ j, byCpusetLoop ks s 0 = .idx j ↔ ∃ hj : j < ks.length, Sub s ks[j].cpuset) ∧
    (byCpusetLoop ks s 0 = .err .exdev ↔ (∃ k ∈ ks, Meets s k.cpuset) ∧ ∀ k ∈ ks, ¬ Sub s k.cpuset) ∧
    (byCpusetLoop ks s 0 = .err .enoent ↔ ∀ k ∈ ks, ¬ Meets s k.cpuset) := by
  have ⟨h1, h2, h3, h4, h5⟩ := byCpusetLoop_spec s hs ks 0 hne hdj
  have f1 : ∀ j, byCpusetLoop ks s 0 = .idx j → ∃ hj : j < ks.length, Sub s ks[j].cpuset := by
    intro j hj
    obtain ⟨n, hn, e, hsub⟩ := h1 j hj
    have : j = n := by omega
    subst this; exact ⟨hn, hsub⟩
  -- the three right-hand sides exclude each other
  have xA : ∀ j, (∃ hj : j < ks.length, Sub s ks[j].cpuset) → ¬ (∀ k ∈ ks, ¬ Sub s k.cpuset) :=
    fun j ⟨hj, hsub⟩ hall => hall _ (List.getElem_mem hj) hsub
  have xB : ∀ j, (∃ hj : j < ks.length, Sub s ks[j].cpuset) → ¬ (∀ k ∈ ks, ¬ Meets s k.cpuset) :=
    fun j ⟨hj, hsub⟩ hall => hall _ (List.getElem_mem hj) (sub_meets hs hsub)
  have xC : (∃ k ∈ ks, Meets s k.cpuset) → ¬ (∀ k ∈ ks, ¬ Meets s k.cpuset) :=
    fun ⟨k, hk, hm⟩ hall => hall k hk hm
  -- the result is one of the three
  have tri : (∃ j, byCpusetLoop ks s 0 = .idx j) ∨ byCpusetLoop ks s 0 = .err .exdev ∨
      byCpusetLoop ks s 0 = .err .enoent := by
    cases hr : byCpusetLoop ks s 0 with
    | idx j => exact Or.inl ⟨j, rfl⟩
    | err e =>
      cases e with
      | ok => exact absurd hr h5
      | einval => exact absurd hr h4
      | enoent => exact Or.inr (Or.inr rfl)
      | exdev => exact Or.inr (Or.inl rfl)
  refine ⟨?_, ?_, ?_⟩
  · intro j
    refine ⟨f1 j, ?_⟩
    intro hR
    rcases tri with ⟨j', hj'⟩ | he | he
    · obtain ⟨hjl, hsub⟩ := hR
      obtain ⟨hjl', hsub'⟩ := f1 j' hj'
      rw [hj', sub_unique hdj hs j' j hjl' hjl hsub' hsub]
    · exact absurd (h2 he).2 (xA j hR)
    · exact absurd (h3 he) (xB j hR)
  · refine ⟨h2, ?_⟩
    intro hR
    rcases tri with ⟨j', hj'⟩ | he | he
    · exact absurd hR.2 (xA j' (f1 j' hj'))
    · exact he
    · exact absurd (h3 he) (xC hR.1)
  · refine ⟨h3, ?_⟩
    intro hR
    rcases tri with ⟨j', hj'⟩ | he | he
    · exact absurd hR (xB j' (f1 j' hj'))
    · exact absurd hR (xC (h2 he).1)
    · exact he

/-! ### efficiency order between PUs, from their abstract cells -/

theorem eff_order_by_cells {strat : Strategy} {ks : List Kind} {m : AMap} (hR : Ranked strat ks) (R : Refines ks m)
    (h2 : 2 ≤ ks.length) {key : Kind → Nat} (hk : chooseKey strat ks = some key)
    (i j : Nat) (hi : i < ks.length) (hj : j < ks.length) (p q : Nat) (cp cq : Cell)
    (hp : ks[i].cpuset.testBit p = true) (hq : ks[j].cpuset.testBit q = true)
    (hcp : m p = some cp) (hcq : m q = some cq) :
    ks[i].eff = (i : Int) ∧ ks[j].eff = (j : Int) ∧ (i < j ↔ key (ofFI cp) < key (ofFI cq)) := by
  have H := hR.2 h2
  rw [hk] at H
  have hok := (chooseKey_some hk).1
  have e1 : cp = ks[i].fi := by
    have := R.cell _ (List.getElem_mem hi) p hp
    rw [hcp] at this; injection this
  have e2 : cq = ks[j].fi := by
    have := R.cell _ (List.getElem_mem hj) q hq
    rw [hcq] at this; injection this
  refine ⟨H.2 i hi, H.2 j hj, ?_⟩
  rw [e1, e2, ← hok ks[i] (ofFI ks[i].fi) rfl, ← hok ks[j] (ofFI ks[j].fi) rfl]
  exact strictBy_lt_iff H.1 i j hi hj

end CpuKinds
end Hw
