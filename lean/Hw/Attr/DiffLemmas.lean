/- Hw.Attr.DiffLemmas — lemmas about the model of diff.c (Hw.Attr.Diff). -/
import Hw.Attr.Diff
namespace Hw.Diff
set_option linter.unusedSectionVars false
variable {σ : Type}

theorem mem_cancel (t n o : Mem) : t + (n - o) + (o - n) = t := by bv_omega

/-! ### flat / mapData (nested induction) -/

mutual
theorem flat_mapData (g : Data σ → Data σ) : ∀ o : Obj σ, (o.mapData g).flat = o.flat.map g
  | .mk d c0 c1 c2 c3 => by
    simp only [Obj.mapData, Obj.flat, List.map_cons, List.map_append, flatL_mapDataL g c0, flatL_mapDataL g c1,
      flatL_mapDataL g c2, flatL_mapDataL g c3]
theorem flatL_mapDataL (g : Data σ → Data σ) : ∀ l : List (Obj σ), flatL (mapDataL g l) = (flatL l).map g
  | [] => by simp [mapDataL, flatL]
  | x :: xs => by simp only [mapDataL, flatL, List.map_append, flat_mapData g x, flatL_mapDataL g xs]
end

mutual
theorem mapData_congr (f g : Data σ → Data σ) : ∀ o : Obj σ, (∀ d ∈ o.flat, f d = g d) → o.mapData f = o.mapData g
  | .mk d c0 c1 c2 c3 => by
    intro h
    simp only [Obj.flat, List.mem_cons, List.mem_append] at h
    simp only [Obj.mapData]
    rw [h d (Or.inl rfl), mapDataL_congr f g c0 (fun x hx => h x (by simp [hx])),
      mapDataL_congr f g c1 (fun x hx => h x (by simp [hx])),
      mapDataL_congr f g c2 (fun x hx => h x (by simp [hx])), mapDataL_congr f g c3 (fun x hx => h x (by simp [hx]))]
theorem mapDataL_congr (f g : Data σ → Data σ) : ∀ l : List (Obj σ), (∀ d ∈ flatL l, f d = g d) → mapDataL f l = mapDataL g l
  | [] => by simp [mapDataL]
  | x :: xs => by
    intro h
    simp only [flatL, List.mem_append] at h
    simp only [mapDataL]
    rw [mapData_congr f g x (fun d hd => h d (Or.inl hd)), mapDataL_congr f g xs (fun d hd => h d (Or.inr hd))]
end

mutual
theorem mapData_id : ∀ o : Obj σ, o.mapData id = o
  | .mk d c0 c1 c2 c3 => by simp only [Obj.mapData, id, mapDataL_id c0, mapDataL_id c1, mapDataL_id c2, mapDataL_id c3]
theorem mapDataL_id : ∀ l : List (Obj σ), mapDataL id l = l
  | [] => by simp [mapDataL]
  | x :: xs => by simp only [mapDataL, mapData_id x, mapDataL_id xs]
end

mutual
theorem mapData_comp (f g : Data σ → Data σ) : ∀ o : Obj σ, (o.mapData f).mapData g = o.mapData (g ∘ f)
  | .mk d c0 c1 c2 c3 => by
    simp only [Obj.mapData, Function.comp, mapDataL_comp f g c0, mapDataL_comp f g c1, mapDataL_comp f g c2, mapDataL_comp f g c3]
theorem mapDataL_comp (f g : Data σ → Data σ) : ∀ l : List (Obj σ), mapDataL g (mapDataL f l) = mapDataL (g ∘ f) l
  | [] => by simp [mapDataL]
  | x :: xs => by simp only [mapDataL, mapData_comp f g x, mapDataL_comp f g xs]
end

theorem mapData_eq_self (f : Data σ → Data σ) (o : Obj σ) (h : ∀ d ∈ o.flat, f d = d) : o.mapData f = o := by
  have := mapData_congr f id o (fun d hd => by simp [h d hd])
  rw [this, mapData_id]

theorem mapData_mapData_self (f g : Data σ → Data σ) (o : Obj σ) (h : ∀ d ∈ o.flat, g (f d) = d) :
    (o.mapData f).mapData g = o := by
  rw [mapData_comp]; exact mapData_eq_self _ o (fun d hd => by simp [Function.comp, h d hd])

variable [DecidableEq σ]

/-! ### hypotheses under which the object addressing of a diff is meaningful -/

/-- `(depth, logical_index)` identifies an object (C01 well-formedness) -/
def KeysInj (T : Topo σ) : Prop := ∀ x ∈ T.flat, ∀ y ∈ T.flat, x.key = y.key → x = y

/-- no infos array holds two pairs with the same name -/
def InfoNamesDistinct (T : Topo σ) : Prop :=
  (∀ d ∈ T.flat, (d.infos.map Prod.fst).Nodup) ∧ (T.tinfos.map Prod.fst).Nodup

theorem Topo.flat_mapData (T : Topo σ) (g : Data σ → Data σ) : (T.mapData g).flat = T.flat.map g := by
  simp [Topo.flat, Topo.mapData, Hw.Diff.flat_mapData]

theorem getObj_some {T : Topo σ} {k : Key} {d : Data σ} (h : getObj T k = some d) : d ∈ T.flat ∧ d.key = k := by
  unfold getObj at h
  exact ⟨List.mem_of_find?_eq_some h, by simpa using List.find?_some h⟩

theorem getObj_mapData (T : Topo σ) (g : Data σ → Data σ) (hg : ∀ x, (g x).key = x.key) (k : Key) :
    getObj (T.mapData g) k = (getObj T k).map g := by
  unfold getObj
  rw [Topo.flat_mapData, List.find?_map]
  congr 2
  funext x
  simp [Function.comp, hg]

@[simp] theorem sizeFun_key (t : Data σ) (n δ : Mem) (x : Data σ) : (sizeFun t n δ x).key = x.key := by
  unfold sizeFun; split
  · rfl
  · split <;> rfl
@[simp] theorem nameFun_key (k : Key) (n : σ) (x : Data σ) : (nameFun k n x).key = x.key := by
  unfold nameFun; split <;> rfl
@[simp] theorem infosFun_key (k : Key) (l : List (σ × σ)) (x : Data σ) : (infosFun k l x).key = x.key := by
  unfold infosFun; split <;> rfl

theorem sizeFun_ancs (t : Data σ) (n δ : Mem) (x : Data σ) : (sizeFun t n δ x).ancs = x.ancs := by
  unfold sizeFun; split
  · rfl
  · split <;> rfl
theorem sizeFun_numa (t : Data σ) (n δ : Mem) (x : Data σ) : (sizeFun t n δ x).numa = x.numa := by
  unfold sizeFun; split
  · rfl
  · split <;> rfl
theorem sizeFun_infos (t : Data σ) (n δ : Mem) (x : Data σ) : (sizeFun t n δ x).infos = x.infos := by
  unfold sizeFun; split
  · rfl
  · split <;> rfl
theorem nameFun_infos (k : Key) (n : σ) (x : Data σ) : (nameFun k n x).infos = x.infos := by
  unfold nameFun; split <;> rfl
theorem sizeFun_lmem_self (t : Data σ) (n δ : Mem) : (sizeFun t n δ t).lmem = n := by simp [sizeFun]

/-- a SIZE change followed by the swapped SIZE change (target found again as `d'`) -/
theorem sizeFun_cancel (d d' : Data σ) (n o : Mem) (hk : d'.key = d.key) (ha : d'.ancs = d.ancs) (x : Data σ) :
    sizeFun d' o (o - n) (sizeFun d n (n - o) x) = if x.key = d.key then { x with lmem := o } else x := by
  by_cases h1 : x.key = d.key
  · have e1 : sizeFun d n (n - o) x = { x with lmem := n, tmem := x.tmem + (n - o) } := by simp [sizeFun, h1]
    have hk2 : ({ x with lmem := n, tmem := x.tmem + (n - o) } : Data σ).key = d'.key := h1.trans hk.symm
    rw [e1]
    simp only [sizeFun, hk2, if_true, h1, mem_cancel]
  · by_cases h2 : x.key ∈ d.ancs
    · have e1 : sizeFun d n (n - o) x = { x with tmem := x.tmem + (n - o) } := by simp [sizeFun, h1, h2]
      have hk2 : ¬ (({ x with tmem := x.tmem + (n - o) } : Data σ).key = d'.key) := fun h => h1 (h.trans hk)
      have ha2 : ({ x with tmem := x.tmem + (n - o) } : Data σ).key ∈ d'.ancs := ha ▸ h2
      rw [e1]
      simp only [sizeFun, hk2, ha2, if_true, if_false, h1, mem_cancel]
    · have e1 : sizeFun d n (n - o) x = x := by simp [sizeFun, h1, h2]
      have hk2 : ¬ (x.key = d'.key) := fun h => h1 (h.trans hk)
      have ha2 : ¬ (x.key ∈ d'.ancs) := ha ▸ h2
      rw [e1]
      simp only [sizeFun, hk2, ha2, if_false, h1]

/-! ### replaceFirst -/

theorem replaceFirst_fst {nm o n : σ} : ∀ {l l' : List (σ × σ)}, replaceFirst nm o n l = some l' → l'.map Prod.fst = l.map Prod.fst
  | [], _, h => by simp [replaceFirst] at h
  | (a, v) :: r, l', h => by
    unfold replaceFirst at h
    split at h
    · cases h; simp
    · simp only [Option.map_eq_some_iff] at h
      obtain ⟨r', hr, rfl⟩ := h
      simp [replaceFirst_fst hr]

theorem replaceFirst_mem {nm o n : σ} : ∀ {l l' : List (σ × σ)}, replaceFirst nm o n l = some l' → nm ∈ l.map Prod.fst
  | [], _, h => by simp [replaceFirst] at h
  | (a, v) :: r, l', h => by
    unfold replaceFirst at h
    split at h
    · rename_i hc; simp [hc.1]
    · simp only [Option.map_eq_some_iff] at h
      obtain ⟨r', hr, rfl⟩ := h
      simp [replaceFirst_mem hr]

/-- with distinct names the replacement is undone by the swapped replacement -/
theorem replaceFirst_inv {nm o n : σ} : ∀ {l l' : List (σ × σ)}, (l.map Prod.fst).Nodup →
    replaceFirst nm o n l = some l' → replaceFirst nm n o l' = some l
  | [], _, _, h => by simp [replaceFirst] at h
  | (a, v) :: r, l', hnd, h => by
    unfold replaceFirst at h
    split at h
    · rename_i hc
      cases h
      simp [replaceFirst, hc.1, hc.2]
    · rename_i hc
      simp only [Option.map_eq_some_iff] at h
      obtain ⟨r', hr, rfl⟩ := h
      simp only [List.map_cons, List.nodup_cons] at hnd
      have hne : a ≠ nm := by
        intro ha
        exact hnd.1 (ha ▸ replaceFirst_mem hr)
      unfold replaceFirst
      simp [hne, replaceFirst_inv hnd.2 hr]

/-! ### one entry: inverse and preservation of the hypotheses -/

theorem Attr.swap_swap (a : Attr σ) : a.swap.swap = a := by cases a <;> rfl

theorem Attr.oriented_not (rev : Bool) (a : Attr σ) : a.oriented (!rev) = (a.oriented rev).swap := by
  cases rev <;> simp [Attr.oriented, Attr.swap_swap]

theorem Topo.mapData_mapData_self (T : Topo σ) (f g : Data σ → Data σ) (h : ∀ d ∈ T.flat, g (f d) = d) :
    (T.mapData f).mapData g = T := by
  cases T
  simp only [Topo.mapData]
  congr
  exact Hw.Diff.mapData_mapData_self f g _ h

/-- undoing one successfully applied attribute change -/
theorem applyAttr_inv {T T' : Topo σ} {k : Key} {a : Attr σ} (hk : KeysInj T) (hn : InfoNamesDistinct T)
    (h : applyAttr T k a = some T') : applyAttr T' k a.swap = some T := by
  unfold applyAttr at h
  split at h
  · rename_i d hd
    obtain ⟨hmem, hkey⟩ := getObj_some hd
    split at h
    · -- size
      rename_i o n
      split at h
      · rename_i hc
        cases h
        unfold applyAttr
        rw [getObj_mapData _ _ (by simp), hd]
        simp only [Option.map_some, Attr.swap, sizeFun_numa, sizeFun_lmem_self, hc.1, true_and, if_true]
        congr 1
        apply Topo.mapData_mapData_self
        intro x hx
        rw [sizeFun_cancel d _ n o (by simp) (sizeFun_ancs _ _ _ _) x]
        split
        · rename_i h1
          have := hk x hx d hmem h1
          subst this
          cases x
          simp only [Data.mk.injEq, true_and, and_true] at *
          exact hc.2.symm
        · rfl
      · cases h
    · -- name (some o) (some n)
      rename_i o n
      split at h
      · rename_i hc
        cases h
        unfold applyAttr
        rw [getObj_mapData _ _ (by simp), hd]
        have hgd : nameFun k n d = { d with name := some n } := by simp [nameFun, hkey]
        simp only [Option.map_some, Attr.swap, hgd, if_true]
        congr 1
        apply Topo.mapData_mapData_self
        intro x hx
        by_cases h1 : x.key = k
        · have := hk x hx d hmem (h1.trans hkey.symm)
          subst this
          rw [hgd]
          have : ({ x with name := some n } : Data σ).key = k := h1
          simp only [nameFun, this, if_true]
          cases x
          simp only [Data.mk.injEq, true_and, and_true] at *
          exact hc.symm
        · simp [nameFun, h1]
      · cases h
    · cases h
    · -- info
      rename_i nm o n
      simp only [Option.map_eq_some_iff] at h
      obtain ⟨l, hl, rfl⟩ := h
      unfold applyAttr
      rw [getObj_mapData _ _ (by simp), hd]
      have hgd : infosFun k l d = { d with infos := l } := by simp [infosFun, hkey]
      simp only [Option.map_some, Attr.swap, hgd]
      rw [replaceFirst_inv (hn.1 d hmem) hl]
      simp only [Option.map_some]
      congr 1
      apply Topo.mapData_mapData_self
      intro x hx
      by_cases h1 : x.key = k
      · have := hk x hx d hmem (h1.trans hkey.symm)
        subst this
        rw [hgd]
        have : ({ x with infos := l } : Data σ).key = k := h1
        simp only [infosFun, this, if_true]
      · simp [infosFun, h1]
    · cases h
  · rename_i hd
    split at h
    · rename_i hnbl
      split at h
      · rename_i nm o n
        simp only [Option.map_eq_some_iff] at h
        obtain ⟨l, hl, rfl⟩ := h
        have hd' : getObj ({ T with tinfos := l } : Topo σ) k = none := hd
        unfold applyAttr
        rw [hd']
        simp only [hnbl, if_true, Attr.swap]
        rw [replaceFirst_inv hn.2 hl]
        cases T
        simp
      · cases h
    · cases h

/-- the hypotheses survive one successfully applied attribute change -/
theorem applyAttr_preserves {T T' : Topo σ} {k : Key} {a : Attr σ} (hk : KeysInj T) (hn : InfoNamesDistinct T)
    (h : applyAttr T k a = some T') : KeysInj T' ∧ InfoNamesDistinct T' := by
  have key : ∀ (g : Data σ → Data σ), (∀ x, (g x).key = x.key) →
      (∀ x ∈ T.flat, ((g x).infos.map Prod.fst).Nodup) → KeysInj (T.mapData g) ∧ InfoNamesDistinct (T.mapData g) := by
    intro g hg hi
    refine ⟨?_, ?_, hn.2⟩
    · intro x hx y hy hxy
      rw [Topo.flat_mapData, List.mem_map] at hx hy
      obtain ⟨x0, hx0, rfl⟩ := hx
      obtain ⟨y0, hy0, rfl⟩ := hy
      rw [hg, hg] at hxy
      rw [hk x0 hx0 y0 hy0 hxy]
    · intro d hd
      rw [Topo.flat_mapData, List.mem_map] at hd
      obtain ⟨x0, hx0, rfl⟩ := hd
      exact hi x0 hx0
  unfold applyAttr at h
  split at h
  · rename_i d hd
    obtain ⟨hmem, hkey⟩ := getObj_some hd
    split at h
    · split at h
      · cases h
        refine key _ (by simp) (fun x hx => ?_)
        rw [sizeFun_infos]; exact hn.1 x hx
      · cases h
    · split at h
      · cases h
        refine key _ (by simp) (fun x hx => ?_)
        rw [nameFun_infos]; exact hn.1 x hx
      · cases h
    · cases h
    · simp only [Option.map_eq_some_iff] at h
      obtain ⟨l, hl, rfl⟩ := h
      refine key _ (by simp) (fun x hx => ?_)
      unfold infosFun
      split
      · rename_i hxk
        have := hk x hx d hmem (hxk.trans hkey.symm)
        subst this
        simp only [replaceFirst_fst hl]
        exact hn.1 x hx
      · exact hn.1 x hx
    · cases h
  · split at h
    · split at h
      · simp only [Option.map_eq_some_iff] at h
        obtain ⟨l, hl, rfl⟩ := h
        refine ⟨hk, hn.1, ?_⟩
        simp only [replaceFirst_fst hl]
        exact hn.2
      · cases h
    · cases h

theorem applyOne_inv {T T' : Topo σ} {rev : Bool} {e : Entry σ} (hk : KeysInj T) (hn : InfoNamesDistinct T)
    (h : applyOne rev T e = some T') : applyOne (!rev) T' e = some T := by
  cases e with
  | objAttr k a =>
    simp only [applyOne] at h ⊢
    rw [Attr.oriented_not]
    exact applyAttr_inv hk hn h
  | tooComplex k => simp [applyOne] at h
  | unknown => simp [applyOne] at h

theorem applyOne_preserves {T T' : Topo σ} {rev : Bool} {e : Entry σ} (hk : KeysInj T) (hn : InfoNamesDistinct T)
    (h : applyOne rev T e = some T') : KeysInj T' ∧ InfoNamesDistinct T' := by
  cases e with
  | objAttr k a => exact applyAttr_preserves hk hn (by simpa [applyOne] using h)
  | tooComplex k => simp [applyOne] at h
  | unknown => simp [applyOne] at h

/-! ### lists of entries: the main loop, the cancel loop -/

theorem applyAll_append (rev : Bool) (T : Topo σ) (p q : List (Entry σ)) :
    applyAll rev T (p ++ q) = (applyAll rev T p).bind (fun T' => applyAll rev T' q) := by
  induction p generalizing T with
  | nil => simp [applyAll]
  | cons e r ih =>
    simp only [List.cons_append, applyAll]
    cases applyOne rev T e with
    | none => simp
    | some T1 => simp [ih]

theorem applyAll_preserves {rev : Bool} : ∀ {p : List (Entry σ)} {T T' : Topo σ}, KeysInj T → InfoNamesDistinct T →
    applyAll rev T p = some T' → KeysInj T' ∧ InfoNamesDistinct T'
  | [], T, T', hk, hn, h => by simp [applyAll] at h; subst h; exact ⟨hk, hn⟩
  | e :: r, T, T', hk, hn, h => by
    simp only [applyAll, Option.bind_eq_some_iff] at h
    obtain ⟨T1, h1, h2⟩ := h
    have := applyOne_preserves hk hn h1
    exact applyAll_preserves this.1 this.2 h2

theorem applyGo_spec (rev : Bool) : ∀ (q : List (Entry σ)) (T : Topo σ) (done : List (Entry σ)),
    (∀ T', applyAll rev T q = some T' → applyGo rev T done q = (0, T')) ∧
    (∀ p e r T1, q = p ++ e :: r → applyAll rev T p = some T1 → applyOne rev T1 e = none →
      applyGo rev T done q = (- ((done.length + p.length : Nat) + 1 : Int), cancel rev T1 (done.reverse ++ p)))
  | [], T, done => by
    refine ⟨fun T' h => by simp [applyAll] at h; simp [applyGo, h], ?_⟩
    intro p e r T1 hq
    simp at hq
  | x :: q, T, done => by
    refine ⟨?_, ?_⟩
    · intro T' h
      simp only [applyAll, Option.bind_eq_some_iff] at h
      obtain ⟨T1, h1, h2⟩ := h
      simp only [applyGo, h1]
      exact (applyGo_spec rev q T1 (x :: done)).1 T' h2
    · intro p e r T1 hq hp he
      cases p with
      | nil =>
        simp only [List.nil_append, List.cons.injEq] at hq
        obtain ⟨rfl, rfl⟩ := hq
        simp only [applyAll, Option.some.injEq] at hp
        subst hp
        simp [applyGo, he]
      | cons y p =>
        simp only [List.cons_append, List.cons.injEq] at hq
        obtain ⟨rfl, rfl⟩ := hq
        simp only [applyAll, Option.bind_eq_some_iff] at hp
        obtain ⟨T2, h1, h2⟩ := hp
        simp only [applyGo, h1]
        rw [(applyGo_spec rev (p ++ e :: r) T2 (x :: done)).2 p e r T1 rfl h2 he]
        simp only [List.length_cons, List.reverse_cons, List.append_assoc, List.singleton_append, Prod.mk.injEq, and_true]
        omega

/-- success: every entry applies, the return value is 0 -/
theorem apply_ok {rev : Bool} {T T' : Topo σ} {d : List (Entry σ)} (h : applyAll rev T d = some T') :
    apply rev T d = (0, T') := (applyGo_spec rev d T []).1 T' h

/-- failure at position `p.length + 1`: the return value is `-(p.length + 1)` and the cancel loop runs over the prefix -/
theorem apply_fail {rev : Bool} {T T1 : Topo σ} {p r : List (Entry σ)} {e : Entry σ}
    (hp : applyAll rev T p = some T1) (he : applyOne rev T1 e = none) :
    apply rev T (p ++ e :: r) = (- ((p.length : Int) + 1), cancel rev T1 p) := by
  have := (applyGo_spec rev (p ++ e :: r) T []).2 p e r T1 rfl hp he
  simpa [apply] using this

/-- the main loop either applies everything or stops at a first failing entry -/
theorem applyAll_cases (rev : Bool) : ∀ (d : List (Entry σ)) (T : Topo σ),
    (∃ T', applyAll rev T d = some T') ∨
    (∃ p e r T1, d = p ++ e :: r ∧ applyAll rev T p = some T1 ∧ applyOne rev T1 e = none)
  | [], T => Or.inl ⟨T, rfl⟩
  | x :: q, T => by
    cases h : applyOne rev T x with
    | none => exact Or.inr ⟨[], x, q, T, rfl, rfl, h⟩
    | some T2 =>
      rcases applyAll_cases rev q T2 with ⟨T', h'⟩ | ⟨p, e, r, T1, hq, hp, he⟩
      · exact Or.inl ⟨T', by simp [applyAll, h, h']⟩
      · exact Or.inr ⟨x :: p, e, r, T1, by simp [hq], by simp [applyAll, h, hp], he⟩

/-- the cancel path (last applied first) restores the state the applied prefix started from -/
theorem cancel_applyAll {rev : Bool} : ∀ {p : List (Entry σ)} {T T1 : Topo σ}, KeysInj T → InfoNamesDistinct T →
    applyAll rev T p = some T1 → cancel rev T1 p = T
  | [], T, T1, _, _, h => by simp [applyAll] at h; simp [cancel, h]
  | e :: r, T, T1, hk, hn, h => by
    simp only [applyAll, Option.bind_eq_some_iff] at h
    obtain ⟨T2, h1, h2⟩ := h
    have hp := applyOne_preserves hk hn h1
    simp only [cancel, cancel_applyAll hp.1 hp.2 h2, applyOne_inv hk hn h1, Option.getD_some]

/-- undoing a successfully applied list **in reverse order** restores the topology (no hypothesis on the list) -/
theorem applyAll_reverse_inv {rev : Bool} : ∀ {p : List (Entry σ)} {T T1 : Topo σ}, KeysInj T → InfoNamesDistinct T →
    applyAll rev T p = some T1 → applyAll (!rev) T1 p.reverse = some T
  | [], T, T1, _, _, h => by simp [applyAll] at h; simp [applyAll, h]
  | e :: r, T, T1, hk, hn, h => by
    simp only [applyAll, Option.bind_eq_some_iff] at h
    obtain ⟨T2, h1, h2⟩ := h
    have hp := applyOne_preserves hk hn h1
    rw [List.reverse_cons, applyAll_append, applyAll_reverse_inv hp.1 hp.2 h2]
    simp [applyAll, applyOne_inv hk hn h1]



/-! ### specification side of diff_build -/

/-- nothing a diff compares differs between two paired objects -/
def dataSame (a b : Data σ) : Prop :=
  a.depth = b.depth ∧ a.shape1 = b.shape1 ∧ a.shape2 = b.shape2 ∧ a.name = b.name ∧
  (a.numa = true → a.lmem = b.lmem) ∧ a.infos = b.infos

/-- two paired objects differ at most in what a diff can express (name, local memory, info values) -/
def dataRepr (a b : Data σ) : Prop :=
  a.depth = b.depth ∧ a.shape1 = b.shape1 ∧ a.name.isSome = b.name.isSome ∧ a.shape2 = b.shape2 ∧
  a.infos.map Prod.fst = b.infos.map Prod.fst

mutual
/-- same tree structure (all four child lists), `R` on every pair of corresponding objects -/
def Obj.Rel (R : Data σ → Data σ → Prop) : Obj σ → Obj σ → Prop
  | .mk a a0 a1 a2 a3, .mk b b0 b1 b2 b3 => R a b ∧ RelL R a0 b0 ∧ RelL R a1 b1 ∧ RelL R a2 b2 ∧ RelL R a3 b3
def RelL (R : Data σ → Data σ → Prop) : List (Obj σ) → List (Obj σ) → Prop
  | [], [] => True
  | x :: xs, y :: ys => x.Rel R y ∧ RelL R xs ys
  | _ :: _, [] => False
  | [], _ :: _ => False
end

theorem stage_nil_iff (k : Key) (r : List (Entry σ) × Bool) (next : List (Entry σ)) :
    stage k r next = [] ↔ r.1 = [] ∧ r.2 = true ∧ next = [] := by
  unfold stage
  cases hr : r.2 <;> simp [hr]

theorem stage_noTC_iff (k : Key) (r : List (Entry σ) × Bool) (next : List (Entry σ)) :
    (stage k r next).any Entry.isTC = false ↔ r.1.any Entry.isTC = false ∧ r.2 = true ∧ next.any Entry.isTC = false := by
  unfold stage
  cases hr : r.2 <;> simp [hr, Entry.isTC]

theorem infosGo_nil_iff (k : Key) : ∀ (i1 i2 : List (σ × σ)), infosGo k i1 i2 = ([], true) ↔ i1 = i2
  | [], [] => by simp [infosGo]
  | [], _ :: _ => by simp [infosGo]
  | _ :: _, [] => by simp [infosGo]
  | (n1, v1) :: r1, (n2, v2) :: r2 => by
    unfold infosGo
    by_cases hn : n1 = n2
    · by_cases hv : v1 = v2
      · have := infosGo_nil_iff k r1 r2
        simp only [hn, hv, ne_eq, not_true_eq_false, if_false, List.nil_append]
        rw [show (((infosGo k r1 r2).1, (infosGo k r1 r2).2) = (([] : List (Entry σ)), true)) ↔ infosGo k r1 r2 = ([], true) from by
          cases infosGo k r1 r2; simp]
        simp [this]
      · simp [hn, hv]
    · simp [hn]

theorem infosGo_ok_iff (k : Key) : ∀ (i1 i2 : List (σ × σ)),
    (infosGo k i1 i2).2 = true ↔ i1.map Prod.fst = i2.map Prod.fst
  | [], [] => by simp [infosGo]
  | [], _ :: _ => by simp [infosGo]
  | _ :: _, [] => by simp [infosGo]
  | (n1, v1) :: r1, (n2, v2) :: r2 => by
    unfold infosGo
    by_cases hn : n1 = n2
    · simp [hn, infosGo_ok_iff k r1 r2]
    · simp [hn]

theorem infosGo_noTC (k : Key) : ∀ (i1 i2 : List (σ × σ)), (infosGo k i1 i2).1.any Entry.isTC = false
  | [], [] => by simp [infosGo]
  | [], _ :: _ => by simp [infosGo]
  | _ :: _, [] => by simp [infosGo]
  | (n1, v1) :: r1, (n2, v2) :: r2 => by
    unfold infosGo
    by_cases hn : n1 = n2
    · by_cases hv : v1 = v2 <;> simp [hn, hv, infosGo_noTC k r1 r2, Entry.isTC]
    · simp [hn]

theorem infosDiff_nil_iff (k : Key) (i1 i2 : List (σ × σ)) : infosDiff k i1 i2 = ([], true) ↔ i1 = i2 := by
  unfold infosDiff
  by_cases hl : i1.length = i2.length
  · simp [hl, infosGo_nil_iff]
  · simp only [ne_eq, hl, not_false_eq_true, if_true, Prod.mk.injEq, Bool.false_eq_true, and_false, false_iff]
    intro h; exact hl (by rw [h])

theorem infosDiff_ok_iff (k : Key) (i1 i2 : List (σ × σ)) :
    (infosDiff k i1 i2).2 = true ↔ i1.map Prod.fst = i2.map Prod.fst := by
  unfold infosDiff
  by_cases hl : i1.length = i2.length
  · simp [hl, infosGo_ok_iff]
  · simp only [ne_eq, hl, not_false_eq_true, if_true, Bool.false_eq_true, false_iff]
    intro h; exact hl (by simpa using congrArg List.length h)

theorem infosDiff_noTC (k : Key) (i1 i2 : List (σ × σ)) : (infosDiff k i1 i2).1.any Entry.isTC = false := by
  unfold infosDiff
  split <;> simp [infosGo_noTC]

theorem nameDiff_nil_iff (a b : Data σ) : nameDiff a b = [] ↔ a.name = b.name := by
  unfold nameDiff; by_cases h : a.name = b.name <;> simp [h]
theorem sizeDiff_nil_iff (a b : Data σ) : sizeDiff a b = [] ↔ (a.numa = true → a.lmem = b.lmem) := by
  unfold sizeDiff; by_cases h : a.numa = true <;> by_cases h2 : a.lmem = b.lmem <;> simp [h, h2]
theorem nameDiff_noTC (a b : Data σ) : (nameDiff a b).any Entry.isTC = false := by
  unfold nameDiff; split <;> simp [Entry.isTC]
theorem sizeDiff_noTC (a b : Data σ) : (sizeDiff a b).any Entry.isTC = false := by
  unfold sizeDiff; split <;> simp [Entry.isTC]

mutual
theorem diffTrees_nil_iff : ∀ (x y : Obj σ), diffTrees x y = [] ↔ x.Rel dataSame y
  | .mk a a0 a1 a2 a3, .mk b b0 b1 b2 b3 => by
    unfold diffTrees Obj.Rel
    by_cases h0 : a.depth ≠ b.depth ∨ a.shape1 ≠ b.shape1 ∨ a.name.isSome ≠ b.name.isSome
    · simp only [h0, if_true, List.cons_ne_nil, false_iff, dataSame]
      rintro ⟨⟨hd, hs, _, hn, _⟩, _⟩
      rcases h0 with h | h | h
      · exact h hd
      · exact h hs
      · exact h (by rw [hn])
    · have h0' : a.depth = b.depth ∧ a.shape1 = b.shape1 := by
        constructor
        · exact Classical.byContradiction fun h => h0 (Or.inl h)
        · exact Classical.byContradiction fun h => h0 (Or.inr (Or.inl h))
      simp only [h0, if_false, stage_nil_iff, List.append_eq_nil_iff, nameDiff_nil_iff, sizeDiff_nil_iff,
        decide_eq_true_eq, dataSame]
      constructor
      · rintro ⟨⟨hn, hs⟩, h2, hi1, hi2, k01, k02, k11, k12, k21, k22, k31, k32, _⟩
        exact ⟨⟨h0'.1, h0'.2, h2, hn, hs, (infosDiff_nil_iff a.key _ _).1 (Prod.ext hi1 hi2)⟩,
          (diffKids_nil_iff a0 b0).1 ⟨k01, k02⟩, (diffKids_nil_iff a1 b1).1 ⟨k11, k12⟩,
          (diffKids_nil_iff a2 b2).1 ⟨k21, k22⟩, (diffKids_nil_iff a3 b3).1 ⟨k31, k32⟩⟩
      · rintro ⟨⟨_, _, h2, hn, hs, hi⟩, r0, r1, r2, r3⟩
        have hi' := (infosDiff_nil_iff a.key _ _).2 hi
        have q0 := (diffKids_nil_iff a0 b0).2 r0
        have q1 := (diffKids_nil_iff a1 b1).2 r1
        have q2 := (diffKids_nil_iff a2 b2).2 r2
        have q3 := (diffKids_nil_iff a3 b3).2 r3
        exact ⟨⟨hn, hs⟩, h2, by rw [hi'], by rw [hi'], q0.1, q0.2, q1.1, q1.2, q2.1, q2.2, q3.1, q3.2, trivial⟩
theorem diffKids_nil_iff : ∀ (l1 l2 : List (Obj σ)), ((diffKids l1 l2).1 = [] ∧ (diffKids l1 l2).2 = true) ↔ RelL dataSame l1 l2
  | [], [] => by simp [diffKids, RelL]
  | _ :: _, [] => by simp [diffKids, RelL]
  | [], _ :: _ => by simp [diffKids, RelL]
  | x :: xs, y :: ys => by
    unfold diffKids RelL
    simp only [List.append_eq_nil_iff, diffTrees_nil_iff x y, and_assoc, diffKids_nil_iff xs ys |>.symm]
end

mutual
theorem diffTrees_noTC_iff : ∀ (x y : Obj σ), (diffTrees x y).any Entry.isTC = false ↔ x.Rel dataRepr y
  | .mk a a0 a1 a2 a3, .mk b b0 b1 b2 b3 => by
    unfold diffTrees Obj.Rel
    by_cases h0 : a.depth ≠ b.depth ∨ a.shape1 ≠ b.shape1 ∨ a.name.isSome ≠ b.name.isSome
    · simp only [h0, if_true, List.any_cons, Entry.isTC, List.any_nil, Bool.or_false, Bool.true_eq_false, false_iff, dataRepr]
      rintro ⟨⟨hd, hs, hn, _⟩, _⟩
      rcases h0 with h | h | h
      · exact h hd
      · exact h hs
      · exact h hn
    · have h0' : a.depth = b.depth ∧ a.shape1 = b.shape1 ∧ a.name.isSome = b.name.isSome := by
        refine ⟨?_, ?_, ?_⟩
        · exact Classical.byContradiction fun h => h0 (Or.inl h)
        · exact Classical.byContradiction fun h => h0 (Or.inr (Or.inl h))
        · exact Classical.byContradiction fun h => h0 (Or.inr (Or.inr h))
      simp only [h0, if_false, stage_noTC_iff, List.any_append, nameDiff_noTC, sizeDiff_noTC, Bool.or_self,
        decide_eq_true_eq, dataRepr, infosDiff_noTC, infosDiff_ok_iff, true_and, List.any_nil, and_true]
      constructor
      · rintro ⟨h2, hi, k01, k02, k11, k12, k21, k22, k31, k32⟩
        exact ⟨⟨h0'.1, h0'.2.1, h0'.2.2, h2, hi⟩,
          (diffKids_noTC_iff a0 b0).1 ⟨k01, k02⟩, (diffKids_noTC_iff a1 b1).1 ⟨k11, k12⟩,
          (diffKids_noTC_iff a2 b2).1 ⟨k21, k22⟩, (diffKids_noTC_iff a3 b3).1 ⟨k31, k32⟩⟩
      · rintro ⟨⟨_, _, _, h2, hi⟩, r0, r1, r2, r3⟩
        have q0 := (diffKids_noTC_iff a0 b0).2 r0
        have q1 := (diffKids_noTC_iff a1 b1).2 r1
        have q2 := (diffKids_noTC_iff a2 b2).2 r2
        have q3 := (diffKids_noTC_iff a3 b3).2 r3
        exact ⟨h2, hi, q0.1, q0.2, q1.1, q1.2, q2.1, q2.2, q3.1, q3.2⟩
theorem diffKids_noTC_iff : ∀ (l1 l2 : List (Obj σ)),
    ((diffKids l1 l2).1.any Entry.isTC = false ∧ (diffKids l1 l2).2 = true) ↔ RelL dataRepr l1 l2
  | [], [] => by simp [diffKids, RelL]
  | _ :: _, [] => by simp [diffKids, RelL]
  | [], _ :: _ => by simp [diffKids, RelL]
  | x :: xs, y :: ys => by
    unfold diffKids RelL
    simp only [List.any_append, Bool.or_eq_false_iff, diffTrees_noTC_iff x y, and_assoc, diffKids_noTC_iff xs ys |>.symm]
end

/-- the distances loop accepts exactly equal lists -/
theorem distsDiffer_false_iff (l1 l2 : List (σ × Bool)) : distsDiffer l1 l2 = false ↔ l1 = l2 := by
  simp [distsDiffer]

/-- nothing that hwloc_topology_diff_build compares differs -/
def TopoSame (A B : Topo σ) : Prop :=
  A.root.Rel dataSame B.root ∧ A.allowed = B.allowed ∧ A.tinfos = B.tinfos ∧
  A.dists = B.dists ∧ A.mattrs = B.mattrs ∧ A.kinds = B.kinds

/-- the topologies differ at most in what a diff can express -/
def TopoRepr (A B : Topo σ) : Prop :=
  A.root.Rel dataRepr B.root ∧ A.allowed = B.allowed ∧ A.tinfos.map Prod.fst = B.tinfos.map Prod.fst ∧
  A.dists = B.dists ∧ A.mattrs = B.mattrs ∧ A.kinds = B.kinds

theorem build_ret (A B : Topo σ) : (build A B).1 = 0 ∨ (build A B).1 = 1 := by
  unfold build
  simp only
  repeat' split
  all_goals simp

theorem build_ret0_iff (A B : Topo σ) : (build A B).1 = 0 ↔ TopoRepr A B := by
  unfold build TopoRepr
  simp only [← diffTrees_noTC_iff, ← infosDiff_ok_iff (A.nbl, 0), ← distsDiffer_false_iff]
  by_cases h1 : (diffTrees A.root B.root).any Entry.isTC = true
  · simp [h1]
  · by_cases h2 : A.allowed = B.allowed
    · by_cases h3 : (infosDiff (A.nbl, 0) A.tinfos B.tinfos).2 = true
      · by_cases h4 : distsDiffer A.dists B.dists = true
        · simp [h1, h2, h3, h4]
        · by_cases h5 : A.mattrs = B.mattrs
          · by_cases h6 : A.kinds = B.kinds <;> simp [h1, h2, h3, h4, h5, h6]
          · simp [h1, h2, h3, h4, h5]
      · simp [h1, h2, h3]
    · simp [h1, h2]


theorem build_tc (A B : Topo σ) : (build A B).2.any Entry.isTC = decide ((build A B).1 = 1) := by
  unfold build
  by_cases h1 : (diffTrees A.root B.root).any Entry.isTC = true
  · simp [h1]
  · have h1' : (diffTrees A.root B.root).any Entry.isTC = false := by simpa using h1
    have hi := infosDiff_noTC (A.nbl, 0) A.tinfos B.tinfos
    simp only [h1', Bool.false_eq_true, if_false]
    repeat' split
    all_goals simp [List.any_append, h1', hi, Entry.isTC]

theorem build_empty_iff (A B : Topo σ) : build A B = (0, []) ↔ TopoSame A B := by
  constructor
  · intro h
    have h0 : (build A B).1 = 0 := by rw [h]
    have hr := (build_ret0_iff A B).1 h0
    obtain ⟨hroot, hal, hti, hd, hm, hkd⟩ := hr
    have hrt : (diffTrees A.root B.root).any Entry.isTC = false := (diffTrees_noTC_iff _ _).2 hroot
    have hio := (infosDiff_ok_iff (A.nbl, 0) _ _).2 hti
    have hdd := (distsDiffer_false_iff _ _).2 hd
    unfold build at h
    simp only [hrt, hal, hio, hdd, hm, hkd, Bool.false_eq_true, if_false, ne_eq, not_true_eq_false, Bool.not_true,
      Prod.mk.injEq, true_and, List.append_eq_nil_iff] at h
    exact ⟨(diffTrees_nil_iff _ _).1 h.1, hal, (infosDiff_nil_iff (A.nbl, 0) _ _).1 (Prod.ext h.2 hio), hd, hm, hkd⟩
  · rintro ⟨hroot, hal, hti, hd, hm, hkd⟩
    have hrt := (diffTrees_nil_iff _ _).2 hroot
    have hi := (infosDiff_nil_iff (A.nbl, 0) _ _).2 hti
    have hdd := (distsDiffer_false_iff _ _).2 hd
    unfold build
    simp [hrt, hal, hi, hdd, hm, hkd]



/-! ### the INFO part of apply ∘ build on one infos array -/

/-- the INFO entries of one infos array applied in order (what hwloc_apply_diff_one does to that array) -/
def applyInfos : List (σ × σ) → List (Entry σ) → Option (List (σ × σ))
  | l, [] => some l
  | l, .objAttr _ (.info nm o n) :: r => (replaceFirst nm o n l).bind (fun l' => applyInfos l' r)
  | _, _ :: _ => none

theorem infosGo_entries (k : Key) : ∀ (i1 i2 : List (σ × σ)), ∀ e ∈ (infosGo k i1 i2).1,
    ∃ nm o n, e = Entry.objAttr k (.info nm o n) ∧ nm ∈ i1.map Prod.fst
  | [], [] => by simp [infosGo]
  | [], _ :: _ => by simp [infosGo]
  | _ :: _, [] => by simp [infosGo]
  | (n1, v1) :: r1, (n2, v2) :: r2 => by
    unfold infosGo
    by_cases hn : n1 = n2
    · intro e he
      simp only [hn, ne_eq, not_true_eq_false, if_false, List.mem_append] at he
      rcases he with he | he
      · by_cases hv : v1 = v2
        · simp [hv] at he
        · simp only [hv, not_false_eq_true, if_true, List.mem_singleton] at he
          exact ⟨n1, v1, v2, by rw [he, hn], by simp⟩
      · obtain ⟨nm, o, n, h1, h2⟩ := infosGo_entries k r1 r2 e he
        exact ⟨nm, o, n, h1, by simp [h2]⟩
    · simp [hn]

/-- entries about other names leave the head pair alone -/
theorem applyInfos_frame (k : Key) (a v : σ) : ∀ (es : List (Entry σ)) (l : List (σ × σ)),
    (∀ e ∈ es, ∃ nm o n, e = Entry.objAttr k (.info nm o n) ∧ nm ≠ a) →
    applyInfos ((a, v) :: l) es = (applyInfos l es).map ((a, v) :: ·)
  | [], l, _ => by simp [applyInfos]
  | e :: r, l, h => by
    obtain ⟨nm, o, n, rfl, hne⟩ := h e (by simp)
    have hne' : ¬ (a = nm) := fun c => hne c.symm
    simp only [applyInfos, replaceFirst, hne', false_and, if_false]
    cases hr : replaceFirst nm o n l with
    | none => simp
    | some l' =>
      simp only [Option.map_some, Option.bind_some]
      exact applyInfos_frame k a v r l' (fun e he => h e (by simp [he]))

/-- apply ∘ build on one infos array: with distinct names the queued INFO entries turn `i1` into `i2`
    (F13c shows the hypothesis is needed) -/
theorem applyInfos_infosGo (k : Key) : ∀ (i1 i2 : List (σ × σ)), (i1.map Prod.fst).Nodup →
    (infosGo k i1 i2).2 = true → applyInfos i1 (infosGo k i1 i2).1 = some i2
  | [], [], _, _ => by simp [infosGo, applyInfos]
  | [], _ :: _, _, h => by simp [infosGo] at h
  | _ :: _, [], _, h => by simp [infosGo] at h
  | (n1, v1) :: r1, (n2, v2) :: r2, hnd, h => by
    unfold infosGo at h ⊢
    by_cases hn : n1 = n2
    · subst hn
      simp only [ne_eq, not_true_eq_false, if_false] at h ⊢
      simp only [List.map_cons, List.nodup_cons] at hnd
      have ih := applyInfos_infosGo k r1 r2 hnd.2 h
      have hfr : ∀ e ∈ (infosGo k r1 r2).1, ∃ nm o n, e = Entry.objAttr k (.info nm o n) ∧ nm ≠ n1 := by
        intro e he
        obtain ⟨nm, o, n, h1, h2⟩ := infosGo_entries k r1 r2 e he
        exact ⟨nm, o, n, h1, fun c => hnd.1 (c ▸ h2)⟩
      by_cases hv : v1 = v2
      · subst hv
        simp only [not_true_eq_false, if_false, List.nil_append]
        rw [applyInfos_frame k n1 v1 _ r1 hfr, ih]; rfl
      · simp only [hv, not_false_eq_true, if_true, List.singleton_append, applyInfos, replaceFirst, and_self,
          Option.bind_some]
        rw [applyInfos_frame k n1 v2 _ r1 hfr, ih]; rfl
    · simp [hn] at h

/-! ### build never queues a NULL string -/

/-- no NULL string in a NAME entry (INFO entries carry plain strings in the model) -/
def Entry.NoNull : Entry σ → Prop
  | .objAttr _ (.name o n) => o.isSome = true ∧ n.isSome = true
  | _ => True

theorem mem_stage {k : Key} {r : List (Entry σ) × Bool} {next : List (Entry σ)} {e : Entry σ}
    (h : e ∈ stage k r next) : e ∈ r.1 ∨ e ∈ next ∨ e = .tooComplex k := by
  unfold stage at h
  rcases List.mem_append.1 h with h | h
  · exact Or.inl h
  · split at h
    · exact Or.inr (Or.inl h)
    · exact Or.inr (Or.inr (by simpa using h))

theorem infosDiff_noNull (k : Key) (i1 i2 : List (σ × σ)) : ∀ e ∈ (infosDiff k i1 i2).1, e.NoNull := by
  intro e he
  unfold infosDiff at he
  split at he
  · simp at he
  · obtain ⟨nm, o, n, rfl, _⟩ := infosGo_entries k i1 i2 e he
    trivial

mutual
theorem diffTrees_noNull : ∀ (x y : Obj σ), ∀ e ∈ diffTrees x y, e.NoNull
  | .mk a a0 a1 a2 a3, .mk b b0 b1 b2 b3 => by
    intro e he
    unfold diffTrees at he
    split at he
    · simp only [List.mem_singleton] at he; subst he; trivial
    · rename_i h0
      have hn : a.name.isSome = b.name.isSome := Classical.byContradiction fun h => h0 (Or.inr (Or.inr h))
      rcases mem_stage he with he | he | rfl
      · simp only [List.mem_append] at he
        rcases he with he | he
        · unfold nameDiff at he
          split at he
          · rename_i hne
            simp only [List.mem_singleton] at he; subst he
            show a.name.isSome = true ∧ b.name.isSome = true
            cases ha : a.name with
            | none =>
              cases hb : b.name with
              | none => exact absurd (by rw [ha, hb]) hne
              | some _ => simp [ha, hb] at hn
            | some _ =>
              cases hb : b.name with
              | none => simp [ha, hb] at hn
              | some _ => simp
          · simp at he
        · unfold sizeDiff at he
          split at he
          · simp only [List.mem_singleton] at he; subst he; trivial
          · simp at he
      · rcases mem_stage he with he | he | rfl
        · exact infosDiff_noNull _ _ _ e he
        · rcases mem_stage he with he | he | rfl
          · exact diffKids_noNull a0 b0 e he
          · rcases mem_stage he with he | he | rfl
            · exact diffKids_noNull a1 b1 e he
            · rcases mem_stage he with he | he | rfl
              · exact diffKids_noNull a2 b2 e he
              · rcases mem_stage he with he | he | rfl
                · exact diffKids_noNull a3 b3 e he
                · simp at he
                · trivial
              · trivial
            · trivial
          · trivial
        · trivial
      · trivial
theorem diffKids_noNull : ∀ (l1 l2 : List (Obj σ)), ∀ e ∈ (diffKids l1 l2).1, e.NoNull
  | [], [] => by simp [diffKids]
  | _ :: _, [] => by simp [diffKids]
  | [], _ :: _ => by simp [diffKids]
  | x :: xs, y :: ys => by
    intro e he
    unfold diffKids at he
    simp only [List.mem_append] at he
    rcases he with he | he
    · exact diffTrees_noNull x y e he
    · exact diffKids_noNull xs ys e he
end

theorem build_noNull (A B : Topo σ) : ∀ e ∈ (build A B).2, e.NoNull := by
  intro e he
  have hi := infosDiff_noNull (A.nbl, 0) A.tinfos B.tinfos
  unfold build at he
  simp only at he
  repeat' split at he
  all_goals
    simp only [List.mem_append, List.mem_singleton, List.append_assoc] at he
    first
    | exact diffTrees_noNull _ _ e he
    | (rcases he with h | h | h <;> first | exact diffTrees_noNull _ _ e h | exact hi e h | (subst h; trivial))
    | (rcases he with h | h <;> first | exact diffTrees_noNull _ _ e h | exact hi e h | (subst h; trivial))

end Hw.Diff
