/-
  Hw.Attr.CpuKindsStrategies — C15, task A7: what `hwloc_internal_cpukinds_rank` does to EVERY kinds array under EVERY
  value of HWLOC_CPUKINDS_RANKING, stated declaratively, and histories in which the variable changes between calls.
  Core Lean only.

  1. `rank_spec`               every array, every strategy: the result is a permutation of the input (cpuset, forced
                               efficiency, infos untouched); with a ranking value chosen it IS `renumber 0 (sortBy key ks)`,
                               strictly sorted by that value, efficiency i = i; with none chosen it is the input array in the
                               input order with all efficiencies -1.
  2. `Sel` / `chooseKey_iff_sel`   WHICH ranking value each strategy chooses, as propositions over the array (no Bool
                               computation): `ForcedOK` (all forced efficiencies known, pairwise distinct as uint64),
                               `Need` (which info summaries every kind must have) and `infoKey` (the value built from them).
     `rank_by_strategy`        the characterisation of the resulting order for every strategy; failure ⇒ all -1.
  3. `rank_consistent_with_forced`   every array whose forced efficiencies are known and pairwise distinct: under the default
                               and the `forced_efficiency` strategies the output is sorted by increasing forced efficiency
                               and efficiency i = i.
  4. `lastVal` / `summarize_spec`    the info summary of a kind in terms of the LAST pair of each name.
  5. `runE` / `runET`          histories of public calls in which HWLOC_CPUKINDS_RANKING changes between the calls (the C
                               code calls getenv in every rank): the invariant, the refinement and `Ranked` w.r.t. the
                               strategy in force at the last call that ranked.
-/
import Hw.Attr.CpuKindsRank
import Hw.Attr.CpuKindsRefine
namespace Hw
namespace CpuKinds

/-! ### 1. `rank` on every array -/

theorem rank_two (strat : Strategy) (a b : Kind) (t : List Kind) :
    rank strat (a :: b :: t) = match chooseKey strat (a :: b :: t) with
      | some key => finalize key (a :: b :: t)
      | none => clearEff (a :: b :: t) := rfl

theorem chooseKey_rank (strat : Strategy) (ks : List Kind) : chooseKey strat (rank strat ks) = chooseKey strat ks :=
  chooseKey_perm strat (fi_perm_of_sameCore (rank_sameCore strat ks))

theorem rank_spec (strat : Strategy) (ks : List Kind) :
    SameCore ks (rank strat ks) ∧
    (ks.length ≤ 1 → (rank strat ks).map Kind.core = ks.map Kind.core ∧ ∀ k ∈ rank strat ks, k.eff = 0) ∧
    (2 ≤ ks.length →
      match chooseKey strat ks with
      | some key => rank strat ks = renumber 0 (sortBy key ks) ∧ StrictBy key (rank strat ks) ∧
                    dupFree (ks.map key) = true ∧
                    (∀ (i : Nat) (hi : i < (rank strat ks).length), (rank strat ks)[i].eff = (i : Int))
      | none => rank strat ks = clearEff ks) := by
  refine ⟨rank_sameCore strat ks, ?_, ?_⟩
  · intro h1
    match ks, h1 with
    | [], _ => exact ⟨rfl, by simp [rank]⟩
    | [k], _ => exact ⟨rfl, by simp [rank]⟩
    | _ :: _ :: _, h1 => simp at h1
  · intro h2
    have hlen := (rank_sameCore strat ks).length
    have R := (rank_ranked strat ks).2 (by omega)
    rw [chooseKey_rank] at R
    match ks, h2, R with
    | a :: b :: t, _, R =>
      rw [rank_two] at R ⊢
      cases hc : chooseKey strat (a :: b :: t) with
      | none => rfl
      | some key =>
        rw [hc] at R
        exact ⟨rfl, R.1, (chooseKey_some hc).2, R.2⟩

/-! ### 2. which ranking value each strategy chooses -/

/-- `hwloc__cpukinds_try_rank_by_forced_efficiency` succeeds: no forced efficiency is UNKNOWN and the values, as
    `uint64_t`, are pairwise distinct -/
def ForcedOK (ks : List Kind) : Prop := (∀ k ∈ ks, k.forced ≠ -1) ∧ (ks.map forcedKey).Nodup

/-- `summary->have_max_freq` / `have_base_freq` / `have_intel_core_type` -/
def HaveMax (ks : List Kind) : Prop := ∀ k ∈ ks, (summarize k).maxFreq ≠ 0
def HaveBase (ks : List Kind) : Prop := ∀ k ∈ ks, (summarize k).baseFreq ≠ 0
def HaveCT (ks : List Kind) : Prop := ∀ k ∈ ks, (summarize k).coreType ≠ 0

def haveMaxB (ks : List Kind) : Bool := (ks.map summarize).all (fun s => decide (s.maxFreq ≠ 0))
def haveBaseB (ks : List Kind) : Bool := (ks.map summarize).all (fun s => decide (s.baseFreq ≠ 0))
def haveCTB (ks : List Kind) : Bool := (ks.map summarize).all (fun s => decide (s.coreType ≠ 0))

theorem haveMaxB_iff (ks : List Kind) : haveMaxB ks = true ↔ HaveMax ks := by
  simp [haveMaxB, HaveMax, List.all_eq_true]
theorem haveBaseB_iff (ks : List Kind) : haveBaseB ks = true ↔ HaveBase ks := by
  simp [haveBaseB, HaveBase, List.all_eq_true]
theorem haveCTB_iff (ks : List Kind) : haveCTB ks = true ↔ HaveCT ks := by
  simp [haveCTB, HaveCT, List.all_eq_true]

/-- what `hwloc__cpukinds_try_rank_by_info` requires of the summaries for each info-based heuristic -/
def Need : Strategy → List Kind → Prop
  | .coretypeFreqStrict, ks => HaveCT ks ∧ (HaveMax ks ∨ HaveBase ks)
  | .coretypeFreq, ks => HaveCT ks ∨ HaveMax ks ∨ HaveBase ks
  | .coretype, ks => HaveCT ks
  | .frequency, ks => HaveMax ks ∨ HaveBase ks
  | .freqMax, ks => HaveMax ks
  | .freqBase, ks => HaveBase ks
  | _, _ => False

/-- the ranking value each info-based heuristic computes (base frequency preferred when EVERY kind has one) -/
def infoKey : Strategy → List Kind → Kind → Nat
  | .coretypeFreqStrict, ks => ctFreqKey (haveBaseB ks)
  | .coretypeFreq, ks => ctFreqKey (haveBaseB ks)
  | .coretype, _ => ctKey
  | .frequency, ks => freqKey (haveBaseB ks)
  | .freqMax, _ => freqKey false
  | .freqBase, _ => freqKey true
  | _, _ => fun _ => 0

def InfoOK (h : Strategy) (ks : List Kind) : Prop := Need h ks ∧ (ks.map (infoKey h ks)).Nodup

theorem fin_iff (ks : List Kind) (ok : Bool) (key : Kind → Nat) (P : Prop) (hP : ok = true ↔ P) :
    ((P ∧ (ks.map key).Nodup) → finKey ks ok key = some key) ∧
    (¬ (P ∧ (ks.map key).Nodup) → finKey ks ok key = none) := by
  unfold finKey
  have e : (ok && dupFree (ks.map key)) = true ↔ (P ∧ (ks.map key).Nodup) := by
    rw [Bool.and_eq_true, hP, dupFree_iff_nodup]
  constructor
  · intro h; rw [if_pos (e.mpr h)]
  · intro h; rw [if_neg (fun c => h (e.mp c))]

theorem tryForced_iff (ks : List Kind) :
    (ForcedOK ks → tryForced ks = some forcedKey) ∧ (¬ ForcedOK ks → tryForced ks = none) := by
  have e : ((ks.all fun k => decide (k.forced ≠ -1)) && dupFree (ks.map forcedKey)) = true ↔ ForcedOK ks := by
    rw [Bool.and_eq_true, dupFree_iff_nodup, List.all_eq_true]
    simp [ForcedOK]
  unfold tryForced
  constructor
  · intro h; rw [if_pos (e.mpr h)]
  · intro h; rw [if_neg (fun c => h (e.mp c))]

theorem tryInfo_iff (h : Strategy) (ks : List Kind) :
    (InfoOK h ks → tryInfo h ks = some (infoKey h ks)) ∧ (¬ InfoOK h ks → tryInfo h ks = none) := by
  have hM := haveMaxB_iff ks
  have hB := haveBaseB_iff ks
  have hC := haveCTB_iff ks
  cases h
  case coretypeFreqStrict =>
    exact fin_iff ks (haveCTB ks && (haveMaxB ks || haveBaseB ks)) (ctFreqKey (haveBaseB ks)) _
      (by rw [Bool.and_eq_true, Bool.or_eq_true, hM, hB, hC]; rfl)
  case coretypeFreq =>
    exact fin_iff ks (haveCTB ks || haveMaxB ks || haveBaseB ks) (ctFreqKey (haveBaseB ks)) _
      (by rw [Bool.or_eq_true, Bool.or_eq_true, hM, hB, hC]; exact or_assoc)
  case coretype => exact fin_iff ks (haveCTB ks) ctKey _ hC
  case frequency =>
    exact fin_iff ks (haveMaxB ks || haveBaseB ks) (freqKey (haveBaseB ks)) _
      (by rw [Bool.or_eq_true, hM, hB]; rfl)
  case freqMax => exact fin_iff ks (haveMaxB ks) (freqKey false) _ hM
  case freqBase => exact fin_iff ks (haveBaseB ks) (freqKey true) _ hB
  all_goals exact ⟨fun h => h.1.elim, fun _ => rfl⟩

/-- "strategy `s` ranks the array `ks` by the value `key`" — the decision procedure of
    `hwloc_internal_cpukinds_rank`, as a proposition -/
def Sel : Strategy → List Kind → (Kind → Nat) → Prop
  | .dflt, ks, key => (ForcedOK ks ∧ key = forcedKey) ∨
                      (¬ ForcedOK ks ∧ InfoOK .coretypeFreq ks ∧ key = infoKey .coretypeFreq ks)
  | .noForced, ks, key => InfoOK .coretypeFreq ks ∧ key = infoKey .coretypeFreq ks
  | .forced, ks, key => ForcedOK ks ∧ key = forcedKey
  | .none, _, _ => False
  | .coretypeFreq, ks, key => InfoOK .coretypeFreq ks ∧ key = infoKey .coretypeFreq ks
  | .coretypeFreqStrict, ks, key => InfoOK .coretypeFreqStrict ks ∧ key = infoKey .coretypeFreqStrict ks
  | .coretype, ks, key => InfoOK .coretype ks ∧ key = infoKey .coretype ks
  | .frequency, ks, key => InfoOK .frequency ks ∧ key = infoKey .frequency ks
  | .freqMax, ks, key => InfoOK .freqMax ks ∧ key = infoKey .freqMax ks
  | .freqBase, ks, key => InfoOK .freqBase ks ∧ key = infoKey .freqBase ks

theorem some_eq_iff {α : Type} (a b : α) : (some a = some b) ↔ b = a := by
  constructor
  · intro h; injection h with h; exact h.symm
  · intro h; rw [h]

theorem tryInfo_sel (h : Strategy) (ks : List Kind) (key : Kind → Nat) :
    tryInfo h ks = some key ↔ InfoOK h ks ∧ key = infoKey h ks := by
  by_cases c : InfoOK h ks
  · rw [(tryInfo_iff h ks).1 c, some_eq_iff]; exact ⟨fun e => ⟨c, e⟩, fun e => e.2⟩
  · rw [(tryInfo_iff h ks).2 c]; exact ⟨fun e => (by cases e), fun e => absurd e.1 c⟩

theorem tryForced_sel (ks : List Kind) (key : Kind → Nat) :
    tryForced ks = some key ↔ ForcedOK ks ∧ key = forcedKey := by
  by_cases c : ForcedOK ks
  · rw [(tryForced_iff ks).1 c, some_eq_iff]; exact ⟨fun e => ⟨c, e⟩, fun e => e.2⟩
  · rw [(tryForced_iff ks).2 c]; exact ⟨fun e => (by cases e), fun e => absurd e.1 c⟩

theorem chooseKey_iff_sel (s : Strategy) (ks : List Kind) (key : Kind → Nat) :
    chooseKey s ks = some key ↔ Sel s ks key := by
  cases s
  case dflt =>
    show (match tryForced ks with | some k => some k | none => tryInfo .coretypeFreq ks) = some key ↔ _
    by_cases c : ForcedOK ks
    · rw [(tryForced_iff ks).1 c]
      show some forcedKey = some key ↔ _
      rw [some_eq_iff]
      exact ⟨fun e => Or.inl ⟨c, e⟩, fun e => e.elim (fun e => e.2) (fun e => absurd c e.1)⟩
    · rw [(tryForced_iff ks).2 c]
      show tryInfo .coretypeFreq ks = some key ↔ _
      rw [tryInfo_sel]
      exact ⟨fun e => Or.inr ⟨c, e⟩, fun e => e.elim (fun e => absurd e.1 c) (fun e => e.2)⟩
  case noForced => exact tryInfo_sel .coretypeFreq ks key
  case forced => exact tryForced_sel ks key
  case none => exact ⟨fun e => (by cases e), fun e => e.elim⟩
  case coretypeFreq => exact tryInfo_sel .coretypeFreq ks key
  case coretypeFreqStrict => exact tryInfo_sel .coretypeFreqStrict ks key
  case coretype => exact tryInfo_sel .coretype ks key
  case frequency => exact tryInfo_sel .frequency ks key
  case freqMax => exact tryInfo_sel .freqMax ks key
  case freqBase => exact tryInfo_sel .freqBase ks key

theorem chooseKey_none_iff (s : Strategy) (ks : List Kind) : chooseKey s ks = none ↔ ∀ key, ¬ Sel s ks key := by
  constructor
  · intro h key hs
    rw [(chooseKey_iff_sel s ks key).mpr hs] at h; cases h
  · intro h
    cases hc : chooseKey s ks with
    | none => rfl
    | some key => exact absurd ((chooseKey_iff_sel s ks key).mp hc) (h key)

/-- the resulting order for every strategy: sorted by the strategy's ranking value when it selects one,
    otherwise untouched with all efficiencies -1 -/
theorem rank_by_strategy (s : Strategy) (ks : List Kind) (h2 : 2 ≤ ks.length) :
    (∀ key, Sel s ks key →
      rank s ks = renumber 0 (sortBy key ks) ∧ StrictBy key (rank s ks) ∧ (ks.map key).Nodup ∧
      (∀ (i : Nat) (hi : i < (rank s ks).length), (rank s ks)[i].eff = (i : Int))) ∧
    ((∀ key, ¬ Sel s ks key) → rank s ks = clearEff ks) := by
  have H := (rank_spec s ks).2.2 h2
  constructor
  · intro key hs
    rw [(chooseKey_iff_sel s ks key).mpr hs] at H
    exact ⟨H.1, H.2.1, (dupFree_iff_nodup _).mp H.2.2.1, H.2.2.2⟩
  · intro hn
    rw [(chooseKey_none_iff s ks).mpr hn] at H
    exact H

/-! ### 3. consistency with known, pairwise distinct forced efficiencies — every array -/

/-- `ranked_forced_consistent` with the bound of the ranking value's type (`uint64_t`) instead of C `int` -/
theorem ranked_forced_consistent64 {strat : Strategy} (hs : strat = .dflt ∨ strat = .forced) {ks : List Kind}
    (h : Ranked strat ks) (hb : ∀ k ∈ ks, -1 ≤ k.forced ∧ k.forced < 18446744073709551616)
    (hk : ∀ k ∈ ks, k.forced ≠ -1) (hd : (ks.map (·.forced)).Pairwise (· ≠ ·)) :
    (∀ (i : Nat) (hi : i < ks.length), ks[i].eff = (i : Int)) ∧ (ks.map (·.forced)).Pairwise (· < ·) ∧
    (2 ≤ ks.length → chooseKey strat ks = some forcedKey) := by
  have hkey : ∀ k ∈ ks, forcedKey k = k.forced.toNat ∧ 0 ≤ k.forced := by
    intro k hkm
    have := hb k hkm
    have := hk k hkm
    exact ⟨forcedKey_of_range (by omega) (by omega), by omega⟩
  have hdup : dupFree (ks.map forcedKey) = true := by
    rw [dupFree_iff_nodup]
    unfold List.Nodup
    rw [List.pairwise_map]
    rw [List.pairwise_map] at hd
    apply hd.imp_of_mem
    intro a b ha hb' hne e
    rw [(hkey a ha).1, (hkey b hb').1] at e
    have := (hkey a ha).2
    have := (hkey b hb').2
    omega
  have hck : 2 ≤ ks.length → chooseKey strat ks = some forcedKey := by
    intro _
    rcases hs with rfl | rfl
    · simp only [chooseKey, tryForced_of hk hdup]
    · simp only [chooseKey, tryForced_of hk hdup]
  have hr : ¬ (2 ≤ ks.length ∧ chooseKey strat ks = none) := by
    rintro ⟨h2, hn⟩
    rw [hck h2] at hn; cases hn
  refine ⟨h.eff_idx hr, ?_, hck⟩
  by_cases h2 : 2 ≤ ks.length
  · have H := h.2 h2
    rw [hck h2] at H
    rw [List.pairwise_map]
    apply H.1.imp_of_mem
    intro a b ha hb' hlt
    rw [(hkey a ha).1, (hkey b hb').1] at hlt
    have := (hkey a ha).2
    have := (hkey b hb').2
    omega
  · match ks, h2 with
    | [], _ => exact List.Pairwise.nil
    | [k], _ => simp
    | _ :: _ :: _, h2 => simp at h2

/-- EVERY kinds array whose forced efficiencies are all known (not -1, hence ≥ 0 once normalised by the public entry
    point) and pairwise distinct: `hwloc_internal_cpukinds_rank` under the default or the `forced_efficiency` strategy
    returns a permutation of the array in which the forced efficiencies strictly increase with the index and
    efficiency i = i; for two or more kinds it is the array sorted by forced efficiency, renumbered. -/
theorem rank_consistent_with_forced {strat : Strategy} (hs : strat = .dflt ∨ strat = .forced) (ks : List Kind)
    (hb : ∀ k ∈ ks, -1 ≤ k.forced ∧ k.forced < 18446744073709551616)
    (hk : ∀ k ∈ ks, k.forced ≠ -1) (hd : (ks.map (·.forced)).Pairwise (· ≠ ·)) :
    SameCore ks (rank strat ks) ∧
    ((rank strat ks).map (·.forced)).Pairwise (· < ·) ∧
    (∀ (i : Nat) (hi : i < (rank strat ks).length), (rank strat ks)[i].eff = (i : Int)) ∧
    (2 ≤ ks.length → rank strat ks = renumber 0 (sortBy forcedKey ks)) := by
  have hc := rank_sameCore strat ks
  have hb' : ∀ k ∈ rank strat ks, -1 ≤ k.forced ∧ k.forced < 18446744073709551616 :=
    forall_core hc (P := fun c => -1 ≤ c.2.1 ∧ c.2.1 < 18446744073709551616) hb
  have hk' : ∀ k ∈ rank strat ks, k.forced ≠ -1 := forall_core hc (P := fun c => c.2.1 ≠ -1) hk
  have hd' : ((rank strat ks).map (·.forced)).Pairwise (· ≠ ·) := by
    rw [List.pairwise_map] at hd ⊢
    exact pairwise_core hc (R := fun a b => a.2.1 ≠ b.2.1) (fun {a b} h => fun e => h e.symm) hd
  have R := ranked_forced_consistent64 hs (rank_ranked strat ks) hb' hk' hd'
  refine ⟨hc, R.2.1, R.1, ?_⟩
  intro h2
  have H := (rank_spec strat ks).2.2 h2
  have e := R.2.2 (by rw [hc.length]; exact h2)
  rw [chooseKey_rank] at e
  rw [e] at H
  exact H.1

/-- under the range of the public API, `ForcedOK` is literally "all known and pairwise distinct" -/
theorem forcedOK_iff (ks : List Kind) (hb : ∀ k ∈ ks, -1 ≤ k.forced ∧ k.forced < 18446744073709551616) :
    ForcedOK ks ↔ (∀ k ∈ ks, k.forced ≠ -1) ∧ (ks.map (·.forced)).Pairwise (· ≠ ·) := by
  unfold ForcedOK
  constructor
  · rintro ⟨hk, hn⟩
    refine ⟨hk, ?_⟩
    unfold List.Nodup at hn
    rw [List.pairwise_map] at hn ⊢
    apply hn.imp_of_mem
    intro a b _ _ hne e
    apply hne
    unfold forcedKey; rw [e]
  · rintro ⟨hk, hd⟩
    refine ⟨hk, ?_⟩
    unfold List.Nodup
    rw [List.pairwise_map] at hd ⊢
    apply hd.imp_of_mem
    intro a b ha hb' hne e
    have h1 := hb a ha
    have h2 := hb b hb'
    have h3 := hk a ha
    have h4 := hk b hb'
    rw [forcedKey_of_range (by omega) (by omega), forcedKey_of_range (by omega) (by omega)] at e
    omega

/-- the `forced_efficiency` strategy fails (all efficiencies -1, order untouched) as soon as one forced efficiency is
    unknown or two are equal -/
theorem rank_forced_fails (ks : List Kind) (h2 : 2 ≤ ks.length)
    (hb : ∀ k ∈ ks, -1 ≤ k.forced ∧ k.forced < 18446744073709551616)
    (h : (∃ k ∈ ks, k.forced = -1) ∨ ¬ (ks.map (·.forced)).Pairwise (· ≠ ·)) :
    rank .forced ks = clearEff ks := by
  apply (rank_by_strategy .forced ks h2).2
  intro key hs
  have := (forcedOK_iff ks hb).mp hs.1
  rcases h with ⟨k, hk, e⟩ | h
  · exact this.1 k hk e
  · exact h this.2

/-- the `uint64_t` cast of a C `int` (what `ranking_value = forced_efficiency` stores) -/
def ukey (f : Int) : Nat := if 0 ≤ f then f.toNat else (f + 18446744073709551616).toNat

theorem forcedKey_int (k : Kind) (h : -18446744073709551616 ≤ k.forced ∧ k.forced < 18446744073709551616) :
    forcedKey k = ukey k.forced := by
  unfold forcedKey ukey
  split <;> omega

theorem ukey_inj {a b : Int} (ha : -9223372036854775808 ≤ a ∧ a < 9223372036854775808)
    (hb : -9223372036854775808 ≤ b ∧ b < 9223372036854775808) (h : ukey a = ukey b) : a = b := by
  unfold ukey at h
  split at h <;> split at h <;> omega

/-- on the whole range of a C `int` (negative values other than -1 included — the internal entry point and private
    writes can store them) `ForcedOK` is still "all known and pairwise distinct" -/
theorem forcedOK_iff_int (ks : List Kind)
    (hb : ∀ k ∈ ks, -9223372036854775808 ≤ k.forced ∧ k.forced < 9223372036854775808) :
    ForcedOK ks ↔ (∀ k ∈ ks, k.forced ≠ -1) ∧ (ks.map (·.forced)).Pairwise (· ≠ ·) := by
  unfold ForcedOK
  constructor
  · rintro ⟨hk, hn⟩
    refine ⟨hk, ?_⟩
    unfold List.Nodup at hn
    rw [List.pairwise_map] at hn ⊢
    apply hn.imp_of_mem
    intro a b _ _ hne e
    apply hne
    unfold forcedKey; rw [e]
  · rintro ⟨hk, hd⟩
    refine ⟨hk, ?_⟩
    unfold List.Nodup
    rw [List.pairwise_map] at hd ⊢
    apply hd.imp_of_mem
    intro a b ha hb' hne e
    have h1 := hb a ha
    have h2 := hb b hb'
    rw [forcedKey_int a (by omega), forcedKey_int b (by omega)] at e
    exact hne (ukey_inj h1 h2 e)

/-- EVERY array of two or more kinds whose forced efficiencies are known and pairwise distinct C `int`s of either sign:
    the default and the `forced_efficiency` strategies sort by the `uint64_t` cast — non-negative values in increasing
    order first, then the negative ones in increasing order -/
theorem rank_forced_int {strat : Strategy} (hs : strat = .dflt ∨ strat = .forced) (ks : List Kind) (h2 : 2 ≤ ks.length)
    (hb : ∀ k ∈ ks, -9223372036854775808 ≤ k.forced ∧ k.forced < 9223372036854775808)
    (hk : ∀ k ∈ ks, k.forced ≠ -1) (hd : (ks.map (·.forced)).Pairwise (· ≠ ·)) :
    rank strat ks = renumber 0 (sortBy forcedKey ks) ∧
    (rank strat ks).Pairwise (fun a b => ukey a.forced < ukey b.forced) ∧
    (∀ (i : Nat) (hi : i < (rank strat ks).length), (rank strat ks)[i].eff = (i : Int)) := by
  have hok : ForcedOK ks := (forcedOK_iff_int ks hb).mpr ⟨hk, hd⟩
  have hsel : Sel strat ks forcedKey := by
    rcases hs with rfl | rfl
    · exact Or.inl ⟨hok, rfl⟩
    · exact ⟨hok, rfl⟩
  have R := (rank_by_strategy strat ks h2).1 forcedKey hsel
  refine ⟨R.1, ?_, R.2.2.2⟩
  have hb' : ∀ k ∈ rank strat ks, -9223372036854775808 ≤ k.forced ∧ k.forced < 9223372036854775808 :=
    forall_core (rank_sameCore strat ks)
      (P := fun c => -9223372036854775808 ≤ c.2.1 ∧ c.2.1 < 9223372036854775808) hb
  apply R.2.1.imp_of_mem
  intro a b ha hbm hlt
  have h1 := hb' a ha
  have h2' := hb' b hbm
  rw [forcedKey_int a (by omega), forcedKey_int b (by omega)] at hlt
  exact hlt

/-! ### 4. the info summary of a kind: the LAST pair of each name counts -/

/-- value of the last pair named `name` -/
def lastVal (name : String) (infos : List Info) : Option String :=
  infos.foldl (fun acc i => if i.1 = name then some i.2 else acc) none

/-- the last CoreType pair whose value is one of the two recognised strings -/
def lastCoreType (infos : List Info) : Nat :=
  infos.foldl (fun acc i => if i.1 = "CoreType" then
      (if i.2 = "IntelAtom" then 1 else if i.2 = "IntelCore" then 2 else acc) else acc) 0

def freqOf : Option String → Nat
  | some v => atoiU32 v
  | none => 0

theorem summarize_spec (k : Kind) :
    (summarize k).maxFreq = freqOf (lastVal "FrequencyMaxMHz" k.infos) ∧
    (summarize k).baseFreq = freqOf (lastVal "FrequencyBaseMHz" k.infos) ∧
    (summarize k).coreType = lastCoreType k.infos := by
  unfold summarize lastVal lastCoreType
  suffices H : ∀ (l : List Info) (s : Summ) (a b : Option String) (c : Nat),
      s.maxFreq = freqOf a → s.baseFreq = freqOf b → s.coreType = c →
      (l.foldl summStep s).maxFreq =
        freqOf (l.foldl (fun acc i => if i.1 = "FrequencyMaxMHz" then some i.2 else acc) a) ∧
      (l.foldl summStep s).baseFreq =
        freqOf (l.foldl (fun acc i => if i.1 = "FrequencyBaseMHz" then some i.2 else acc) b) ∧
      (l.foldl summStep s).coreType =
        l.foldl (fun acc i => if i.1 = "CoreType" then
          (if i.2 = "IntelAtom" then 1 else if i.2 = "IntelCore" then 2 else acc) else acc) c from
    H k.infos {} none none 0 rfl rfl rfl
  intro l
  induction l with
  | nil => intro s a b c h1 h2 h3; exact ⟨h1, h2, h3⟩
  | cons i t ih =>
    intro s a b c h1 h2 h3
    simp only [List.foldl_cons]
    apply ih
    · unfold summStep
      by_cases e1 : i.1 = "FrequencyMaxMHz"
      · simp only [if_pos e1]; rfl
      · simp only [if_neg e1]
        repeat' split
        all_goals exact h1
    · unfold summStep
      by_cases e1 : i.1 = "FrequencyMaxMHz"
      · have e2 : ¬ i.1 = "FrequencyBaseMHz" := by rw [e1]; decide
        simp only [if_pos e1, if_neg e2]; exact h2
      · by_cases e2 : i.1 = "FrequencyBaseMHz"
        · simp only [if_neg e1, if_pos e2]; rfl
        · simp only [if_neg e1, if_neg e2]
          repeat' split
          all_goals exact h2
    · unfold summStep
      by_cases e1 : i.1 = "FrequencyMaxMHz"
      · have e3 : ¬ i.1 = "CoreType" := by rw [e1]; decide
        simp only [if_pos e1, if_neg e3]; exact h3
      · by_cases e2 : i.1 = "FrequencyBaseMHz"
        · have e3 : ¬ i.1 = "CoreType" := by rw [e2]; decide
          simp only [if_neg e1, if_pos e2, if_neg e3]; exact h3
        · by_cases e3 : i.1 = "CoreType"
          · simp only [if_neg e1, if_neg e2, if_pos e3]
            by_cases v1 : i.2 = "IntelAtom"
            · simp only [if_pos v1]
            · by_cases v2 : i.2 = "IntelCore"
              · simp only [if_neg v1, if_pos v2]
              · simp only [if_neg v1, if_neg v2]; exact h3
          · simp only [if_neg e1, if_neg e2, if_neg e3]; exact h3

/-- a kind without any FrequencyMaxMHz / FrequencyBaseMHz / recognised CoreType pair has the zero summary: every
    info-based strategy fails on an array containing it (for `coretype+frequency` and `frequency`: unless the other
    summaries are complete) -/
theorem summarize_absent (k : Kind) (h : ∀ i ∈ k.infos, i.1 ≠ "FrequencyMaxMHz" ∧ i.1 ≠ "FrequencyBaseMHz" ∧ i.1 ≠ "CoreType") :
    (summarize k).maxFreq = 0 ∧ (summarize k).baseFreq = 0 ∧ (summarize k).coreType = 0 := by
  unfold summarize
  suffices H : ∀ (l : List Info) (s : Summ), (∀ i ∈ l, i.1 ≠ "FrequencyMaxMHz" ∧ i.1 ≠ "FrequencyBaseMHz" ∧ i.1 ≠ "CoreType") →
      l.foldl summStep s = s from by rw [H k.infos {} h]; exact ⟨rfl, rfl, rfl⟩
  intro l
  induction l with
  | nil => intro s _; rfl
  | cons i t ih =>
    intro s hl
    have hi := hl i List.mem_cons_self
    simp only [List.foldl_cons]
    have e : summStep s i = s := by
      unfold summStep
      simp only [hi.1, hi.2.1, hi.2.2, if_false]
    rw [e]
    exact ih s (fun j hj => hl j (List.mem_cons_of_mem _ hj))

/-- the core-type summary is 0 (none recognised), 1 (IntelAtom) or 2 (IntelCore) -/
theorem summarize_coreType_le (k : Kind) : (summarize k).coreType ≤ 2 := by
  rw [(summarize_spec k).2.2]
  unfold lastCoreType
  suffices H : ∀ (l : List Info) (c : Nat), c ≤ 2 →
      l.foldl (fun acc i => if i.1 = "CoreType" then
        (if i.2 = "IntelAtom" then 1 else if i.2 = "IntelCore" then 2 else acc) else acc) c ≤ 2 from H _ 0 (by omega)
  intro l
  induction l with
  | nil => intro c h; exact h
  | cons i t ih =>
    intro c h
    simp only [List.foldl_cons]
    apply ih
    repeat' split
    all_goals omega

/-- "rank first by coretype (Core >> Atom) then by frequency": as long as the frequencies stay below 2^20 MHz the value
    `(intel_core_type << 20) + freq` orders kinds lexicographically by (core type, frequency) — nothing wraps and the
    frequency never reaches the core-type bits -/
theorem ctFreqKey_lex (hb : Bool) (a b : Kind) (ha : freqKey hb a < 1048576) (hb' : freqKey hb b < 1048576) :
    ctFreqKey hb a < ctFreqKey hb b ↔
      (summarize a).coreType < (summarize b).coreType ∨
      ((summarize a).coreType = (summarize b).coreType ∧ freqKey hb a < freqKey hb b) := by
  have ca := summarize_coreType_le a
  have cb := summarize_coreType_le b
  have e : ∀ k : Kind, ctFreqKey hb k = ((summarize k).coreType * 1048576 + freqKey hb k) % 4294967296 := by
    intro k
    unfold ctFreqKey freqKey
    simp only [Nat.shiftLeft_eq]
  rw [e a, e b, Nat.mod_eq_of_lt (by omega), Nat.mod_eq_of_lt (by omega)]
  omega

/-- beyond 2^20 the frequency does reach the core-type bits: an IntelAtom kind at 1048576 + 1500 MHz gets the value of
    an IntelCore kind at 1500 MHz (the two are then "duplicates" and the strategy fails) -/
theorem ctFreqKey_collision :
    ctFreqKey true { cpuset := 1, eff := -1, forced := -1, infos := [("CoreType", "IntelAtom"), ("FrequencyBaseMHz", "1050076")] } =
    ctFreqKey true { cpuset := 2, eff := -1, forced := -1, infos := [("CoreType", "IntelCore"), ("FrequencyBaseMHz", "1500")] } := by
  decide

/-! #### non-numeric values: libc `atoi` answers 0, the kind then has no frequency summary -/

theorem strtol_nonnumeric (s : String) (c : Char) (cs : List Char) (h : s.toList.dropWhile isSpace = c :: cs)
    (h1 : c ≠ '-') (h2 : c ≠ '+') (h3 : c.isDigit = false) : strtol s = 0 := by
  unfold strtol
  simp only [h]
  split
  · rename_i r e; injection e with e1 _; exact absurd e1 h1
  · rename_i r e; injection e with e1 _; exact absurd e1 h2
  · simp [digitsVal, h3]

theorem strtol_empty (s : String) (h : s.toList.dropWhile isSpace = []) : strtol s = 0 := by
  unfold strtol
  simp only [h]
  simp [digitsVal]

/-- a value that, after white space, is empty or starts with something that is neither a sign nor a digit -/
def NonNumeric (v : String) : Prop :=
  v.toList.dropWhile isSpace = [] ∨
  ∃ c cs, v.toList.dropWhile isSpace = c :: cs ∧ c ≠ '-' ∧ c ≠ '+' ∧ c.isDigit = false

theorem atoiU32_nonnumeric (v : String) (h : NonNumeric v) : atoiU32 v = 0 := by
  have e : strtol v = 0 := by
    rcases h with h | ⟨c, cs, h, h1, h2, h3⟩
    · exact strtol_empty v h
    · exact strtol_nonnumeric v c cs h h1 h2 h3
  unfold atoiU32; rw [e]; rfl

/-- every info-based strategy needs its summaries: when the requirement of the table is not met, the array is left
    untouched and every efficiency is -1 -/
theorem rank_info_fails (s : Strategy) (hs : s ≠ .dflt ∧ s ≠ .forced) (ks : List Kind) (h2 : 2 ≤ ks.length)
    (hn : ¬ Need (if s = .noForced then .coretypeFreq else s) ks) : rank s ks = clearEff ks := by
  apply (rank_by_strategy s ks h2).2
  intro key hsel
  cases s
  case dflt => exact hs.1 rfl
  case forced => exact hs.2 rfl
  case none => exact hsel
  case noForced => exact hn hsel.1.1
  all_goals exact hn hsel.1.1

/-- a kind whose LAST FrequencyMaxMHz value is non-numeric (or which has none) defeats `frequency_max` for the whole
    array; likewise FrequencyBaseMHz / `frequency_base` -/
theorem rank_freqMax_fails (ks : List Kind) (h2 : 2 ≤ ks.length) (k : Kind) (hk : k ∈ ks)
    (h : lastVal "FrequencyMaxMHz" k.infos = none ∨ ∃ v, lastVal "FrequencyMaxMHz" k.infos = some v ∧ NonNumeric v) :
    rank .freqMax ks = clearEff ks := by
  apply rank_info_fails .freqMax ⟨by decide, by decide⟩ ks h2
  intro hm
  apply hm k hk
  rw [(summarize_spec k).1]
  rcases h with h | ⟨v, h, hv⟩
  · rw [h]; rfl
  · rw [h]; exact atoiU32_nonnumeric v hv

theorem rank_freqBase_fails (ks : List Kind) (h2 : 2 ≤ ks.length) (k : Kind) (hk : k ∈ ks)
    (h : lastVal "FrequencyBaseMHz" k.infos = none ∨ ∃ v, lastVal "FrequencyBaseMHz" k.infos = some v ∧ NonNumeric v) :
    rank .freqBase ks = clearEff ks := by
  apply rank_info_fails .freqBase ⟨by decide, by decide⟩ ks h2
  intro hm
  apply hm k hk
  rw [(summarize_spec k).2.1]
  rcases h with h | ⟨v, h, hv⟩
  · rw [h]; rfl
  · rw [h]; exact atoiU32_nonnumeric v hv

/-! ### 5. histories in which HWLOC_CPUKINDS_RANKING changes between the calls -/

/-- one public call together with the value of HWLOC_CPUKINDS_RANKING in force when it runs -/
abbrev EOp := Strategy × Op

def stepE (st : State) (p : EOp) : State := step p.1 st p.2

/-- state after a history whose every call runs under its own strategy -/
def runE (root : Nat) (h : List EOp) : State := h.foldl stepE { root := root }

theorem runE_const (strat : Strategy) (root : Nat) (h : List Op) :
    runE root (h.map (fun o => (strat, o))) = run strat root h := by
  unfold runE run
  rw [List.foldl_map]
  rfl

/-- the whole invariant of C15 (partition, coverage, infos, capacity, efficiency shape) does not care about the
    strategy: it holds after every history with changing strategies, against the same reference semantics -/
theorem runE_inv (root : Nat) (h : List EOp) : Inv (runE root h) (runGhost root (h.map (·.2))) := by
  unfold runE runGhost
  suffices H : ∀ (st : State) (g : Ghost), Inv st g → Inv (h.foldl stepE st) ((h.map (·.2)).foldl ghostStep g) from
    H _ _ (init_inv root)
  induction h with
  | nil => intro st g H; exact H
  | cons p ps ih => intro st g H; exact ih _ _ (step_inv p.1 H p.2)

/-- and so does the refinement to the abstract map PU ↦ (forced efficiency, infos) -/
theorem runE_refines (root : Nat) (h : List EOp) :
    Refines (runE root h).kinds (absRun root (h.map (·.2))).map ∧
    (absRun root (h.map (·.2))).root = (runE root h).root := by
  unfold runE absRun
  suffices H : ∀ (st : State) (g : Ghost) (a : Abs), Inv st g → Refines st.kinds a.map → a.root = st.root →
      Refines (h.foldl stepE st).kinds ((h.map (·.2)).foldl absStep a).map ∧
        ((h.map (·.2)).foldl absStep a).root = (h.foldl stepE st).root from
    H _ _ _ (init_inv root) refines_nil rfl
  induction h with
  | nil => intro st g a _ R hr; exact ⟨R, hr⟩
  | cons p ps ih =>
    intro st g a H R hr
    have ⟨R', hr'⟩ := step_refines p.1 H R hr p.2
    exact ih _ _ _ (step_inv p.1 H p.2) R' hr'

theorem runE_forced_P (P : Int → Prop) (root : Nat) (h : List EOp)
    (hP : ∀ s cs f i fl, (s, Op.register cs f i fl) ∈ h → P (if f < 0 then -1 else f)) :
    ∀ k ∈ (runE root h).kinds, P k.forced := by
  intro k hk
  obtain ⟨p, hp⟩ := (ne_zero_iff_bits _).mp ((runE_inv root h).k.ne k hk)
  refine abs_forced_P P root (h.map (·.2)) ?_ p k.fi ((runE_refines root h).1.cell k hk p hp)
  intro cs f i fl hm
  obtain ⟨q, hq, e⟩ := List.mem_map.mp hm
  obtain ⟨s, o⟩ := q
  simp only at e
  subst e
  exact hP s cs f i fl hq

/-- did this call run `hwloc_internal_cpukinds_rank` on the whole array?  register: iff it succeeded; XML reload and
    refresh: always; restrict: iff a kind disappeared; dup: never -/
def ranks (st : State) (p : EOp) : Bool :=
  match p.2 with
  | .register cs f i fl => decide ((register p.1 st cs f i fl).2 = .ok)
  | .restrict set => decide ((restrict p.1 st set).1.kinds.length < st.kinds.length)
  | .dup => false
  | .xml => true
  | .refresh => true

/-- the strategy under which the array was last ranked -/
def tagStep (st : State) (tag : Strategy) (p : EOp) : Strategy := if ranks st p then p.1 else tag

def stepET (x : State × Strategy) (p : EOp) : State × Strategy := (stepE x.1 p, tagStep x.1 x.2 p)

/-- state and "strategy of the last ranking call" after a history -/
def runET (root : Nat) (h : List EOp) : State × Strategy := h.foldl stepET ({ root := root }, .dflt)

theorem runET_fst (root : Nat) (h : List EOp) : (runET root h).1 = runE root h := by
  unfold runET runE
  suffices H : ∀ (x : State × Strategy), (h.foldl stepET x).1 = h.foldl stepE x.1 from H _
  induction h with
  | nil => intro x; rfl
  | cons p ps ih => intro x; simp only [List.foldl_cons]; rw [ih]; rfl

theorem register_ranked_tag (s : Strategy) (st : State) (tag : Strategy) (h : Ranked tag st.kinds)
    (cs : Option Nat) (f : Int) (infos : List Info) (fl : Nat) :
    Ranked (if decide ((register s st cs f infos fl).2 = .ok) = true then s else tag)
      (register s st cs f infos fl).1.kinds := by
  unfold register
  split
  · simpa using h
  · split
    · simpa using h
    · split
      · simpa using h
      · simp only [decide_true, if_true]
        exact rank_ranked s _

theorem restrict_ranked_tag (s : Strategy) (st : State) (tag : Strategy) (h : Ranked tag st.kinds) (set : Nat) :
    Ranked (if decide ((restrict s st set).1.kinds.length < st.kinds.length) = true then s else tag)
      (restrict s st set).1.kinds := by
  unfold restrict
  split
  · simpa using h
  · simp only [restrictKinds]
    have hle := List.length_filter_le (fun k : Kind => decide (k.cpuset ≠ 0))
      (st.kinds.map (fun k => { k with cpuset := k.cpuset &&& (st.root &&& set) }))
    rw [List.length_map] at hle
    split
    · rename_i hrem
      rw [List.length_map] at hrem
      have hall := List.length_filter_eq_length_iff.mp (by rw [List.length_map]; omega :
        ((st.kinds.map (fun k => ({ k with cpuset := k.cpuset &&& (st.root &&& set) } : Kind))).filter
          (fun k => decide (k.cpuset ≠ 0))).length =
          (st.kinds.map (fun k => ({ k with cpuset := k.cpuset &&& (st.root &&& set) } : Kind))).length)
      have hlt : ¬ ((st.kinds.map (fun k => ({ k with cpuset := k.cpuset &&& (st.root &&& set) } : Kind))).filter
          (fun k => decide (k.cpuset ≠ 0))).length < st.kinds.length := by omega
      simp only [decide_eq_true_eq, if_neg hlt]
      show Ranked tag (List.filter _ _)
      rw [List.filter_eq_self.mpr hall]
      apply h.congr
      · rw [List.map_map]; rfl
      · rw [List.map_map]; rfl
    · rename_i hrem
      rw [List.length_map] at hrem
      have hlt : (rank s ((st.kinds.map (fun k => ({ k with cpuset := k.cpuset &&& (st.root &&& set) } : Kind))).filter
          (fun k => decide (k.cpuset ≠ 0)))).length < st.kinds.length := by
        rw [(rank_sameCore s _).length]; omega
      simp only [decide_eq_true_eq, if_pos hlt]
      exact rank_ranked s _

theorem stepET_ranked (x : State × Strategy) (h : Ranked x.2 x.1.kinds) (p : EOp) :
    Ranked (stepET x p).2 (stepET x p).1.kinds := by
  obtain ⟨s, op⟩ := p
  cases op with
  | register cs f i fl => exact register_ranked_tag s x.1 x.2 h cs f i fl
  | restrict set => exact restrict_ranked_tag s x.1 x.2 h set
  | dup =>
    show Ranked x.2 (x.1.kinds.map _)
    apply h.congr
    · rw [List.map_map]; rfl
    · rw [List.map_map]; rfl
  | xml => exact rank_ranked s _
  | refresh => exact rank_ranked s _

/-- after ANY history with changing strategies the array is `Ranked` with respect to the strategy that was in force at
    the last call that ranked it (strictly sorted by that strategy's ranking value with efficiency i = i, or all -1) -/
theorem runET_ranked (root : Nat) (h : List EOp) : Ranked (runET root h).2 (runET root h).1.kinds := by
  unfold runET
  suffices H : ∀ x : State × Strategy, Ranked x.2 x.1.kinds → Ranked (h.foldl stepET x).2 (h.foldl stepET x).1.kinds from
    H _ ⟨by simp, by simp⟩
  induction h with
  | nil => intro x H; exact H
  | cons p ps ih => intro x H; exact ih _ (stepET_ranked x H p)

/-- a history that ends in a call that ranks (successful register, XML reload, refresh, restrict that drops a kind):
    the tag is the strategy of that call -/
theorem runET_last (root : Nat) (h : List EOp) (p : EOp) (hr : ranks (runE root h) p = true) :
    (runET root (h ++ [p])).2 = p.1 ∧ (runET root (h ++ [p])).1 = stepE (runE root h) p := by
  unfold runET
  rw [List.foldl_append]
  simp only [List.foldl_cons, List.foldl_nil]
  have e := runET_fst root h
  unfold runET at e
  constructor
  · show tagStep _ _ p = p.1
    unfold tagStep; rw [e, hr]; rfl
  · show stepE _ p = _
    rw [e]

/-! ### 6. executable forms used by the driver (cross-check on every line of the differential run) -/

instance rankedDec (strat : Strategy) (ks : List Kind) : Decidable (Ranked strat ks) := by
  unfold Ranked
  cases chooseKey strat ks with
  | none => exact inferInstanceAs (Decidable ((ks.length = 1 → ∀ k ∈ ks, k.eff = 0) ∧
      (2 ≤ ks.length → ∀ k ∈ ks, k.eff = -1)))
  | some key => exact inferInstanceAs (Decidable ((ks.length = 1 → ∀ k ∈ ks, k.eff = 0) ∧ (2 ≤ ks.length →
      StrictBy key ks ∧ ∀ (i : Nat) (h : i < ks.length), ks[i].eff = (i : Int))))

/-- `Ranked`, computed -/
def rankedB (strat : Strategy) (ks : List Kind) : Bool := decide (Ranked strat ks)

theorem rankedB_iff (strat : Strategy) (ks : List Kind) : rankedB strat ks = true ↔ Ranked strat ks := by
  unfold rankedB; exact decide_eq_true_iff

/-- the summary rebuilt from the LAST pair of each name -/
def summ2 (k : Kind) : Summ :=
  { coreType := lastCoreType k.infos, maxFreq := freqOf (lastVal "FrequencyMaxMHz" k.infos),
    baseFreq := freqOf (lastVal "FrequencyBaseMHz" k.infos) }

theorem summ2_eq (k : Kind) : summ2 k = summarize k := by
  have h := summarize_spec k
  unfold summ2
  rw [← h.1, ← h.2.1, ← h.2.2]

/-- what the driver checks after every line: the array is ranked w.r.t. the strategy of the last ranking call and the
    last-pair summaries are the fold summaries (both are theorems: `runET_ranked`, `summ2_eq`) -/
def specOK (tag : Strategy) (ks : List Kind) : Bool :=
  rankedB tag ks && ks.all (fun k => let a := summ2 k; let b := summarize k
    a.coreType == b.coreType && a.maxFreq == b.maxFreq && a.baseFreq == b.baseFreq)

theorem runET_specOK (root : Nat) (h : List EOp) : specOK (runET root h).2 (runET root h).1.kinds = true := by
  unfold specOK
  rw [Bool.and_eq_true, rankedB_iff, List.all_eq_true]
  refine ⟨runET_ranked root h, ?_⟩
  intro k _
  simp only [summ2_eq, beq_self_eq_true, Bool.and_self]

/-! ### 7. leaving the reachable states (harness ops `rawset` / `rawswap` / `rawrank`): private writes into the array,
    so that `rank` is driven on arrays no history of public calls produces -/

/-- overwrite `forced_efficiency` and `efficiency` of slot `idx` -/
def rawSet (st : State) (idx : Nat) (forced eff : Int) : State × Err :=
  match st.kinds[idx]? with
  | some k => ({ st with kinds := st.kinds.set idx { k with forced := forced, eff := eff } }, .ok)
  | none => (st, .enoent)

/-- exchange slots `i` and `j` -/
def rawSwap (st : State) (i j : Nat) : State × Err :=
  match st.kinds[i]?, st.kinds[j]? with
  | some a, some b => ({ st with kinds := (st.kinds.set i b).set j a }, .ok)
  | _, _ => (st, .enoent)

/-- a direct call of `hwloc_internal_cpukinds_rank` under `strat` -/
def rawRank (strat : Strategy) (st : State) : State := { st with kinds := rank strat st.kinds }

/-- whatever the private writes did, the direct call establishes `Ranked` again -/
theorem rawRank_ranked (strat : Strategy) (st : State) : Ranked strat (rawRank strat st).kinds :=
  rank_ranked strat st.kinds

end CpuKinds
end Hw
