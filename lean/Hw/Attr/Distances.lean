/-
  Hw.Attr.Distances — model of hwloc/distances.c (user API for adding, getting, removing and
  transforming distance matrices, refresh after topology changes, XML / dup transfer).
  Core Lean only.

  Conventions
  * an object is known by its type, gp_index, os_index and whether its subtype is "NVSwitch";
    a topology is the list of its live objects in level order (`Topo`);
  * C arrays that are read and written in place (`values`, `objs`, `indexes`, `different_types`)
    are *functional arrays* `FArr α` (index ↦ value) updated by `upd`; every loop is written with explicit fuel
    `fuel = bound - index` and the same index arithmetic as the C code;
  * `uint64_t` additions wrap (`add64`).
-/
namespace Hw.Dist

/-! ## constants of include/hwloc/distances.h -/

def KIND_FROM_OS : Nat := 1
def KIND_FROM_USER : Nat := 2
def KIND_VALUE_LATENCY : Nat := 4
def KIND_VALUE_BANDWIDTH : Nat := 8
def KIND_HETEROGENEOUS : Nat := 16
def KIND_VALUE_HOPS : Nat := 32
/-- `HWLOC_DISTANCES_KIND_FROM_ALL` (distances.c) -/
def KIND_FROM_ALL : Nat := 3
/-- `HWLOC_DISTANCES_KIND_VALUE_ALL` -/
def KIND_VALUE_ALL : Nat := 44
/-- `HWLOC_DISTANCES_KIND_ALL` -/
def KIND_ALL : Nat := 63
/-- `HWLOC_DISTANCES_ADD_FLAG_ALL` -/
def ADD_FLAG_ALL : Nat := 3

def TY_NONE : Int := -1
def TY_PU : Int := 4
def TY_NUMA : Int := 14
/-- `HWLOC_DIST_TYPE_USE_OS_INDEX` -/
def useOs (t : Int) : Bool := t == TY_PU || t == TY_NUMA

def W64 : Nat := 18446744073709551616
def add64 (a b : Nat) : Nat := (a + b) % W64

/-- `hwloc_weight_long` on a 6-bit quantity -/
def weight6 (k : Nat) : Nat :=
  (List.range 6).foldl (fun a i => a + (if k.testBit i then 1 else 0)) 0

inductive Err where
  | EINVAL | ENOENT
deriving DecidableEq, Repr

structure Obj where
  ty : Int
  gp : Nat
  os : Nat
  sw : Bool
deriving DecidableEq, Repr, Inhabited

abbrev Topo := List Obj

/-! ## functional arrays

`FArr α` is a C array seen as a total function of the index.  (It is a structure, not a bare
function type, so that compiled loops returning an array run once instead of once per read.) -/

structure FArr (α : Type) where
  get : Nat → α

def FArr.upd {α : Type} (a : FArr α) (p : Nat) (v : α) : FArr α := ⟨fun q => if q = p then v else a.get q⟩
def toArr {α : Type} (l : List α) (d : α) : FArr α := ⟨fun i => l.getD i d⟩
def ofArr {α : Type} (a : FArr α) (m : Nat) : List α := (List.range m).map a.get

/-- number of live indexes below `j` (the value of `newj` when the C loop reaches `j`) -/
def rank (live : Nat → Bool) : Nat → Nat
  | 0 => 0
  | j+1 => rank live j + (if live j then 1 else 0)

/-! ## `hwloc_internal_distances_restrict` -/

/-- inner loop `for(j=0,newj=0; j<nbobjs; j++) if (objs[j]) { values[newi*k+newj] = values[i*n+j]; newj++; }`
on the one flat array `a` -/
def compactRow (n k : Nat) (live : Nat → Bool) (i newi : Nat) :
    (fuel j newj : Nat) → FArr Nat → FArr Nat
  | 0, _, _, a => a
  | f+1, j, newj, a =>
    if live j then compactRow n k live i newi f (j+1) (newj+1) (a.upd (newi*k+newj) (a.get (i*n+j)))
    else compactRow n k live i newi f (j+1) newj a

/-- outer loop `for(i=0,newi=0; i<nbobjs; i++) if (objs[i]) { <row>; newi++; }` -/
def compactRows (n k : Nat) (live : Nat → Bool) : (fuel i newi : Nat) → FArr Nat → FArr Nat
  | 0, _, _, a => a
  | f+1, i, newi, a =>
    if live i then compactRows n k live f (i+1) (newi+1) (compactRow n k live i newi n 0 0 a)
    else compactRows n k live f (i+1) newi a

/-- first loop nest of `hwloc_internal_distances_restrict`; `k = nbobjs - disappeared` -/
def compactVals (n k : Nat) (live : Nat → Bool) (a : FArr Nat) : FArr Nat :=
  compactRows n k live n 0 0 a

/-- second loop: `if (objs[i]) { objs[newi]=objs[i]; indexes[newi]=indexes[i]; different_types[newi]=…; newi++ }`.
The liveness test reads the *current* `objs` array. -/
def compactObjs : (fuel i newi : Nat) → FArr (Option Obj) → FArr Nat → FArr Int →
    FArr (Option Obj) × FArr Nat × FArr Int
  | 0, _, _, o, x, t => (o, x, t)
  | f+1, i, newi, o, x, t =>
    if (o.get i).isSome then
      compactObjs f (i+1) (newi+1) (o.upd newi (o.get i)) (x.upd newi (x.get i)) (t.upd newi (t.get i))
    else compactObjs f (i+1) newi o x t

/-! ## internal structures -/

structure Dist where
  id : Nat
  name : Option String
  kind : Nat
  /-- `unique_type`, −1 = `HWLOC_OBJ_TYPE_NONE` -/
  uniq : Int
  /-- `different_types != NULL` -/
  hetero : Bool
  n : Nat
  idx : List Nat
  tys : List Int
  objs : List (Option Obj)
  /-- `iflags & OBJS_VALID` -/
  valid : Bool
  vals : List Nat
deriving DecidableEq, Repr

/-- what `hwloc_distances_get*` hands to the caller (container id + public struct) -/
structure Pub where
  id : Nat
  kind : Nat
  n : Nat
  objs : List (Option Obj)
  vals : List Nat
deriving DecidableEq, Repr

structure State where
  topo : Topo
  dists : List Dist
  nextId : Nat
deriving Repr

def State.init (T : Topo) : State := { topo := T, dists := [], nextId := 0 }

/-- apply `hwloc_internal_distances_restrict` to a whole structure whose `objs` array has just been
(re)filled; `k` = number of non-NULL objects.  Arrays are truncated to the new `nbobjs`. -/
def compactLists (n k : Nat) (objs : List (Option Obj)) (idx : List Nat) (tys : List Int) (vals : List Nat) :
    List (Option Obj) × List Nat × List Int × List Nat :=
  let o := toArr objs none
  let live := fun i => (o.get i).isSome
  let v' := compactVals n k live (toArr vals 0)
  let r := compactObjs n 0 0 o (toArr idx 0) (toArr tys (-1))
  (ofArr r.1 k, ofArr r.2.1 k, ofArr r.2.2 k, ofArr v' (k*k))

def countNone (objs : List (Option Obj)) : Nat := objs.countP (fun o => o.isNone)

/-- unique type of a list of non-NULL objects, or `TY_NONE` -/
def uniqueType (objs : List (Option Obj)) : Int :=
  match objs with
  | some o :: rest => if rest.all (fun x => match x with | some y => y.ty == o.ty | none => true) then o.ty else TY_NONE
  | _ => TY_NONE

/-! ## adding -/

/-- argument validation of `hwloc_distances_add_create` -/
def kindOk (kind : Nat) : Bool :=
  kind &&& KIND_ALL == kind && weight6 (kind &&& KIND_FROM_ALL) ≤ 1 && weight6 (kind &&& KIND_VALUE_ALL) ≤ 1

/-- `hwloc_distances_add_create`: the new handle and the state with the id consumed -/
def addCreate (st : State) (name : Option String) (kind flags : Nat) : Except Err (State × Dist) :=
  if !kindOk kind then .error .EINVAL
  else if flags ≠ 0 then .error .EINVAL
  else .ok ({ st with nextId := st.nextId + 1 },
            { id := st.nextId, name := name, kind := kind, uniq := TY_NONE, hetero := false, n := 0,
              idx := [], tys := [], objs := [], valid := false, vals := [] })

/-- `hwloc_distances_add_values` (public wrapper + backend).  `objs` has `n` entries, `vals` has `n*n`.
On error the handle is destroyed (the caller drops it). -/
def addValues (h : Dist) (n : Nat) (objs : List (Option Obj)) (vals : List Nat) (flags : Nat) : Except Err Dist :=
  if objs.any (fun o => o.isNone) then .error .EINVAL      -- public wrapper: any NULL object
  else if h.n ≠ 0 then .error .EINVAL
  else if flags ≠ 0 || n < 2 then .error .EINVAL
  else
    let disappeared := countNone objs
    if disappeared == n then .error .ENOENT
    else
      let k := n - disappeared
      let c := if disappeared ≠ 0 then compactLists n k objs [] [] vals else (objs, [], [], vals)
      let objs' := c.1
      let vals' := c.2.2.2
      let ut := uniqueType objs'
      let het := ut == TY_NONE
      let tys : List Int := if het then objs'.map (fun o => match o with | some x => x.ty | none => TY_NONE) else []
      let idx := objs'.map (fun o => match o with | some x => (if useOs ut then x.os else x.gp) | none => 0)
      .ok { h with n := k, objs := objs', valid := true, idx := idx, uniq := ut, hetero := het, tys := tys,
                   vals := vals', kind := if het then h.kind ||| KIND_HETEROGENEOUS else h.kind }

/-- `hwloc_distances_add_commit` (grouping itself is not modelled: it does not touch the list) -/
def addCommit (st : State) (h : Dist) (flags : Nat) : Except Err State :=
  if flags &&& ADD_FLAG_ALL ≠ flags then .error .EINVAL
  else if h.n == 0 then .error .EINVAL
  else .ok { st with dists := st.dists ++ [h] }

/-! ## refresh -/

/-- the lookup done by `hwloc_internal_distances_refresh_one` for slot `i` -/
def resolve (T : Topo) (uniq : Int) (ty : Int) (ix : Nat) : Option Obj :=
  if useOs uniq then T.find? (fun o => o.ty == uniq && o.os == ix)
  else T.find? (fun o => o.ty == ty && o.gp == ix)

def resolveAll (T : Topo) (d : Dist) : List (Option Obj) :=
  (List.range d.n).map (fun i =>
    resolve T d.uniq (if d.hetero then d.tys.getD i TY_NONE else d.uniq) (d.idx.getD i 0))

/-- `hwloc_internal_distances_refresh_one`; `none` = "became useless, drop" -/
def refreshOne (T : Topo) (d : Dist) : Option Dist :=
  if d.valid then some d
  else
    let objs := resolveAll T d
    let disappeared := countNone objs
    if d.n - disappeared < 2 then none
    else if disappeared ≠ 0 then
      let k := d.n - disappeared
      let c := compactLists d.n k objs d.idx d.tys d.vals
      some { d with n := k, objs := c.1, idx := c.2.1, tys := if d.hetero then c.2.2.1 else [],
                    vals := c.2.2.2, valid := true }
    else some { d with objs := objs, valid := true }

/-- `hwloc_internal_distances_refresh` -/
def refreshList (T : Topo) (ds : List Dist) : List Dist := ds.filterMap (refreshOne T)

def State.refresh (st : State) : State := { st with dists := refreshList st.topo st.dists }

/-- `hwloc_internal_distances_invalidate_cached_objs` -/
def invalidate (ds : List Dist) : List Dist := ds.map (fun d => { d with valid := false })

/-- successful `hwloc_topology_restrict` leaving the live objects `T'` -/
def State.restrict (st : State) (T' : Topo) : State :=
  { st with topo := T', dists := invalidate st.dists }

/-- `hwloc_topology_dup` (then the old topology is destroyed): ids and the id counter are kept,
cached objects are not -/
def State.dup (st : State) (T' : Topo) : State :=
  { topo := T', nextId := st.nextId,
    dists := st.dists.map (fun d => { d with valid := false, objs := List.replicate d.n none }) }

/-! ## getting -/

def Dist.pub (d : Dist) : Pub := { id := d.id, kind := d.kind, n := d.n, objs := d.objs, vals := d.vals }

/-- the filter of `hwloc__distances_get` (a structure passes iff no `continue` fires) -/
def matchesFilter (name : Option String) (ty : Int) (kind : Nat) (d : Dist) : Bool :=
  let kf := kind &&& KIND_FROM_ALL
  let km := kind &&& KIND_VALUE_ALL
  !(name.isSome && (d.name.isNone || name != d.name)) &&
  !(ty != TY_NONE && ty != d.uniq) &&
  !(kf != 0 && kf &&& d.kind == 0) &&
  !(km != 0 && km &&& d.kind == 0)

/-- `hwloc__distances_get`: refreshed state, `*nr` on return, structures stored in the caller's array -/
def getCore (st : State) (name : Option String) (ty : Int) (kind : Nat) (cap : Nat) : State × Nat × List Pub :=
  let st' := st.refresh
  let m := st'.dists.filter (matchesFilter name ty kind)
  (st', m.length, (m.take cap).map Dist.pub)

def get (st : State) (kind flags cap : Nat) : Except Err (State × Nat × List Pub) :=
  if flags ≠ 0 then .error .EINVAL else .ok (getCore st none TY_NONE kind cap)

/-- `ty` is `hwloc_get_depth_type(depth)` (−1 for an invalid depth) or the caller's type -/
def getByType (st : State) (ty : Int) (kind flags cap : Nat) : Except Err (State × Nat × List Pub) :=
  if flags ≠ 0 then .error .EINVAL else .ok (getCore st none ty kind cap)

def getByDepth (st : State) (depthType : Int) (kind flags cap : Nat) : Except Err (State × Nat × List Pub) :=
  if flags ≠ 0 then .error .EINVAL
  else if depthType == -1 then .error .EINVAL
  else .ok (getCore st none depthType kind cap)

def getByName (st : State) (name : Option String) (flags cap : Nat) : Except Err (State × Nat × List Pub) :=
  if flags ≠ 0 then .error .EINVAL else .ok (getCore st name TY_NONE KIND_ALL cap)

/-- `hwloc__internal_distances_from_public` -/
def fromPublic (ds : List Dist) (id : Nat) : Option Dist := ds.find? (fun d => d.id == id)

/-- `hwloc_distances_get_name` -/
def getName (st : State) (p : Pub) : Option String :=
  match fromPublic st.dists p.id with
  | some d => d.name
  | none => none

/-! ## removing -/

def remove (st : State) : State := { st with dists := [] }

/-- `hwloc_distances_remove_by_depth`; `ty` = `hwloc_get_depth_type(depth)` -/
def removeByDepth (st : State) (ty : Int) : Except Err State :=
  if ty == -1 then .error .EINVAL
  else .ok { st with dists := st.dists.filter (fun d => d.uniq != ty) }

/-- `hwloc_distances_release_remove` -/
def releaseRemove (st : State) (p : Pub) : Except Err State :=
  match fromPublic st.dists p.id with
  | none => .error .EINVAL
  | some _ => .ok { st with dists := st.dists.eraseP (fun d => d.id == p.id) }

/-! ## XML export + import into a fresh topology with live objects `T'` -/

def renumber : List Dist → Nat → List Dist
  | [], _ => []
  | d :: ds, i => { d with id := i, valid := false, objs := List.replicate d.n none } :: renumber ds (i+1)

/-- result: the refreshed exporting state, and the imported state -/
def xmlRoundTrip (st : State) (T' : Topo) : State × State :=
  let st1 := st.refresh
  -- homogeneous structures are exported first
  let ordered := st1.dists.filter (fun d => !d.hetero) ++ st1.dists.filter (fun d => d.hetero)
  -- structures with fewer than 2 objects are ignored by the importer
  let imported := renumber (ordered.filter (fun d => 2 ≤ d.n)) 0
  (st1, { topo := T', dists := refreshList T' imported, nextId := imported.length })

/-! ## transforms (on the caller's copy, in place) -/

def isSw (o : Option Obj) : Bool := match o with | some x => x.sw | none => false

def clearHetero (k : Nat) : Nat := k - (k &&& KIND_HETEROGENEOUS)

/-- `hwloc__distances_transform_remove_null` -/
def trRemoveNull (p : Pub) : Option Err × Pub :=
  let nb := p.n - countNone p.objs
  if nb < 2 then (some .EINVAL, p)
  else if nb == p.n then (none, p)
  else
    let c := compactLists p.n nb p.objs [] [] p.vals
    let ut := uniqueType c.1
    (none, { p with n := nb, objs := c.1, vals := c.2.2.2,
                    kind := if ut == TY_NONE then p.kind ||| KIND_HETEROGENEOUS else clearHetero p.kind })

/-- `for(i=0; i<nbobjs; i++) values[i*nbobjs+i] = 0;` -/
def zeroDiag (n : Nat) : (fuel i : Nat) → FArr Nat → FArr Nat
  | 0, _, a => a
  | f+1, i, a => zeroDiag n f (i+1) (a.upd (i*n+i) 0)

/-- smallest positive value (0 if none) -/
def minPos (vs : List Nat) : Nat :=
  vs.foldl (fun d v => if v ≠ 0 && (d == 0 || v < d) then v else d) 0

/-- the matrix after the diagonal has been zeroed -/
def linksBase (p : Pub) : List Nat := ofArr (zeroDiag p.n p.n 0 (toArr p.vals 0)) (p.n * p.n)

/-- `hwloc__distances_transform_links` -/
def trLinks (p : Pub) : Option Err × Pub :=
  if p.kind &&& KIND_VALUE_BANDWIDTH == 0 then (some .EINVAL, p)
  else
    let v0 := linksBase p
    let divider := minPos v0
    if divider == 0 then (none, { p with vals := v0 })
    else if v0.any (fun v => v % divider ≠ 0) then (some .ENOENT, { p with vals := v0 })
    else (none, { p with vals := v0.map (fun v => v / divider) })

/-- body of `for(k=0;k<nbobjs;k++)` inside the merge of port `j` into port `i` -/
def mergeK (n i j : Nat) : (fuel k : Nat) → FArr Nat → FArr Nat
  | 0, _, a => a
  | f+1, k, a =>
    if k == i || k == j then mergeK n i j f (k+1) a
    else
      let a1 := a.upd (k*n+i) (add64 (a.get (k*n+i)) (a.get (k*n+j)))
      let a2 := a1.upd (k*n+j) 0
      let a3 := a2.upd (i*n+k) (add64 (a2.get (i*n+k)) (a2.get (j*n+k)))
      let a4 := a3.upd (j*n+k) 0
      mergeK n i j f (k+1) a4

/-- `for(j=i+1; j<nbobjs; j++) if (is_nvswitch(objs[j])) { merge port j into port i; objs[j] = NULL; }` -/
def mergeJ (n i : Nat) : (fuel j : Nat) → FArr (Option Obj) → FArr Nat → FArr (Option Obj) × FArr Nat
  | 0, _, o, a => (o, a)
  | f+1, j, o, a =>
    if isSw (o.get j) then
      let b := mergeK n i j n 0 a
      let b1 := b.upd (i*n+i) (add64 (b.get (i*n+i)) (b.get (j*n+j)))
      mergeJ n i f (j+1) (o.upd j none) (b1.upd (j*n+j) 0)
    else mergeJ n i f (j+1) o a

/-- index of the first NVSwitch port -/
def firstSw (objs : List (Option Obj)) : Option Nat :=
  let i := objs.findIdx isSw
  if i < objs.length then some i else none

/-- `hwloc__distances_transform_merge_switch_ports` followed by `remove_null` on success -/
def trMerge (p : Pub) : Option Err × Pub :=
  match firstSw p.objs with
  | none => (some .ENOENT, p)
  | some i =>
    let r := mergeJ p.n i (p.n - (i+1)) (i+1) (toArr p.objs none) (toArr p.vals 0)
    trRemoveNull { p with objs := ofArr r.1 p.n, vals := ofArr r.2 (p.n * p.n) }

/-- `Σ_k is_nvswitch(objs[k]) ? values[cell k] : 0` accumulated in a `uint64_t` -/
def sumSw (sw : Nat → Bool) (cell : Nat → Nat) (a : FArr Nat) : (fuel k acc : Nat) → Nat
  | 0, _, acc => acc
  | f+1, k, acc => sumSw sw cell a f (k+1) (if sw k then add64 acc (a.get (cell k)) else acc)

def closureJ (n : Nat) (sw : Nat → Bool) (i bwI : Nat) : (fuel j : Nat) → FArr Nat → FArr Nat
  | 0, _, a => a
  | f+1, j, a =>
    if i == j || sw j then closureJ n sw i bwI f (j+1) a
    else
      let bwJ := sumSw sw (fun k => k*n+j) a n 0 0
      closureJ n sw i bwI f (j+1) (a.upd (i*n+j) (add64 (a.get (i*n+j)) (if bwI > bwJ then bwJ else bwI)))

def closureI (n : Nat) (sw : Nat → Bool) : (fuel i : Nat) → FArr Nat → FArr Nat
  | 0, _, a => a
  | f+1, i, a =>
    if sw i then closureI n sw f (i+1) a
    else
      let bwI := sumSw sw (fun k => i*n+k) a n 0 0
      closureI n sw f (i+1) (closureJ n sw i bwI n 0 a)

/-- `hwloc__distances_transform_transitive_closure` -/
def trClosure (p : Pub) : Option Err × Pub :=
  let o := toArr p.objs none
  let sw := fun i => isSw (o.get i)
  (none, { p with vals := ofArr (closureI p.n sw p.n 0 (toArr p.vals 0)) (p.n * p.n) })

/-- `hwloc_distances_transform` -/
def transform (p : Pub) (tr flags attr : Nat) : Option Err × Pub :=
  if flags ≠ 0 || attr ≠ 0 then (some .EINVAL, p)
  else match tr with
    | 0 => trRemoveNull p
    | 1 => trLinks p
    | 2 => trMerge p
    | 3 => trClosure p
    | _ => (some .EINVAL, p)

end Hw.Dist
