/- Hw.Attr.DiffCommute — entries of a diff that address different attributes commute; a successfully applied
   list with pairwise distinct slots is undone by THE SAME list (same order) with the REVERSE flag flipped. -/
import Hw.Attr.DiffSlots
namespace Hw.Diff
set_option linter.unusedSectionVars false
variable {σ : Type} [DecidableEq σ]

/-! ### pointwise commutation of the three update functions -/

theorem sizeFun_sizeFun_comm (t1 t2 : Data σ) (n1 δ1 n2 δ2 : Mem) (hne : t1.key ≠ t2.key) (x : Data σ) :
    sizeFun t1 n1 δ1 (sizeFun t2 n2 δ2 x) = sizeFun t2 n2 δ2 (sizeFun t1 n1 δ1 x) := by
  apply Data.ext' <;>
    simp only [sizeFun_depth, sizeFun_lidx, sizeFun_ancs, sizeFun_numa, sizeFun_shape1, sizeFun_shape2, sizeFun_name,
      sizeFun_infos, sizeFun_lmem, sizeFun_tmem, sizeFun_key]
  · by_cases h1 : x.key = t1.key
    · simp only [h1, hne, if_true, if_false]
    · simp only [h1, if_false]
  · rw [BitVec.add_assoc, BitVec.add_assoc, BitVec.add_comm (if x.key = t2.key ∨ x.key ∈ t2.ancs then δ2 else 0)]

theorem sizeFun_nameFun_comm (t : Data σ) (n δ : Mem) (k : Key) (s : σ) (x : Data σ) :
    sizeFun t n δ (nameFun k s x) = nameFun k s (sizeFun t n δ x) := by
  apply Data.ext' <;>
    simp only [sizeFun_depth, sizeFun_lidx, sizeFun_ancs, sizeFun_numa, sizeFun_shape1, sizeFun_shape2, sizeFun_name,
      sizeFun_infos, sizeFun_lmem, sizeFun_tmem, sizeFun_key, nameFun_depth, nameFun_lidx, nameFun_ancs, nameFun_numa,
      nameFun_shape1, nameFun_shape2, nameFun_name, nameFun_infos, nameFun_lmem, nameFun_tmem, nameFun_key]

theorem sizeFun_infosFun_comm (t : Data σ) (n δ : Mem) (k : Key) (l : List (σ × σ)) (x : Data σ) :
    sizeFun t n δ (infosFun k l x) = infosFun k l (sizeFun t n δ x) := by
  apply Data.ext' <;>
    simp only [sizeFun_depth, sizeFun_lidx, sizeFun_ancs, sizeFun_numa, sizeFun_shape1, sizeFun_shape2, sizeFun_name,
      sizeFun_infos, sizeFun_lmem, sizeFun_tmem, sizeFun_key, infosFun_depth, infosFun_lidx, infosFun_ancs, infosFun_numa,
      infosFun_shape1, infosFun_shape2, infosFun_name, infosFun_infos, infosFun_lmem, infosFun_tmem, infosFun_key]

theorem nameFun_infosFun_comm (k : Key) (s : σ) (k' : Key) (l : List (σ × σ)) (x : Data σ) :
    nameFun k s (infosFun k' l x) = infosFun k' l (nameFun k s x) := by
  apply Data.ext' <;>
    simp only [nameFun_depth, nameFun_lidx, nameFun_ancs, nameFun_numa,
      nameFun_shape1, nameFun_shape2, nameFun_name, nameFun_infos, nameFun_lmem, nameFun_tmem, nameFun_key,
      infosFun_depth, infosFun_lidx, infosFun_ancs, infosFun_numa,
      infosFun_shape1, infosFun_shape2, infosFun_name, infosFun_infos, infosFun_lmem, infosFun_tmem, infosFun_key]

theorem nameFun_nameFun_comm (k1 k2 : Key) (s1 s2 : σ) (hne : k1 ≠ k2) (x : Data σ) :
    nameFun k1 s1 (nameFun k2 s2 x) = nameFun k2 s2 (nameFun k1 s1 x) := by
  apply Data.ext' <;>
    simp only [nameFun_depth, nameFun_lidx, nameFun_ancs, nameFun_numa,
      nameFun_shape1, nameFun_shape2, nameFun_name, nameFun_infos, nameFun_lmem, nameFun_tmem, nameFun_key]
  by_cases h1 : x.key = k1
  · simp only [h1, hne, if_true, if_false]
  · simp only [h1, if_false]

theorem infosFun_infosFun_comm (k1 k2 : Key) (l1 l2 : List (σ × σ)) (hne : k1 ≠ k2) (x : Data σ) :
    infosFun k1 l1 (infosFun k2 l2 x) = infosFun k2 l2 (infosFun k1 l1 x) := by
  apply Data.ext' <;>
    simp only [infosFun_depth, infosFun_lidx, infosFun_ancs, infosFun_numa,
      infosFun_shape1, infosFun_shape2, infosFun_name, infosFun_infos, infosFun_lmem, infosFun_tmem, infosFun_key]
  by_cases h1 : x.key = k1
  · simp only [h1, hne, if_true, if_false]
  · simp only [h1, if_false]

theorem infosFun_infosFun_same (k : Key) (l l' : List (σ × σ)) (x : Data σ) :
    infosFun k l' (infosFun k l x) = infosFun k l' x := by
  apply Data.ext' <;>
    simp only [infosFun_depth, infosFun_lidx, infosFun_ancs, infosFun_numa,
      infosFun_shape1, infosFun_shape2, infosFun_name, infosFun_infos, infosFun_lmem, infosFun_tmem, infosFun_key]
  split <;> rfl

/-! ### replacements of two different names commute -/

theorem replaceFirst_comm {nm1 o1 n1 nm2 o2 n2 : σ} (hne : nm1 ≠ nm2) : ∀ {l l1 l12 : List (σ × σ)},
    replaceFirst nm1 o1 n1 l = some l1 → replaceFirst nm2 o2 n2 l1 = some l12 →
    ∃ l2, replaceFirst nm2 o2 n2 l = some l2 ∧ replaceFirst nm1 o1 n1 l2 = some l12
  | [], _, _, h, _ => by simp [replaceFirst] at h
  | (a, v) :: r, l1, l12, h1, h2 => by
    unfold replaceFirst at h1
    split at h1
    · rename_i hc
      cases h1
      have ha2 : ¬ (a = nm2) := fun h => hne (hc.1.symm.trans h)
      simp only [replaceFirst, ha2, false_and, if_false, Option.map_eq_some_iff] at h2
      obtain ⟨r', hr', rfl⟩ := h2
      refine ⟨(a, v) :: r', ?_, ?_⟩
      · simp [replaceFirst, ha2, hr']
      · simp [replaceFirst, hc.1, hc.2]
    · rename_i hc
      simp only [Option.map_eq_some_iff] at h1
      obtain ⟨r1, hr1, rfl⟩ := h1
      unfold replaceFirst at h2
      split at h2
      · rename_i hc2
        cases h2
        have ha1 : ¬ (a = nm1) := fun h => hne (h.symm.trans hc2.1)
        refine ⟨(a, n2) :: r, ?_, ?_⟩
        · simp [replaceFirst, hc2.1, hc2.2]
        · simp [replaceFirst, ha1, hr1]
      · rename_i hc2
        simp only [Option.map_eq_some_iff] at h2
        obtain ⟨r12, hr12, rfl⟩ := h2
        obtain ⟨r2, e2, e1⟩ := replaceFirst_comm hne hr1 hr12
        refine ⟨(a, v) :: r2, ?_, ?_⟩
        · simp [replaceFirst, hc2, e2]
        · simp [replaceFirst, hc, e1]

/-! ### one OBJ_ATTR step seen as a function on `Data` -/

def Attr.kind : Attr σ → Nat
  | .size _ _ => 0
  | .name _ _ => 1
  | .info _ _ _ => 2
  | .unknown => 3

/-- what `applyAttr` does when the key names the object `d`: the guard, and the function mapped over the tree -/
def objStep (d : Data σ) (k : Key) : Attr σ → Option (Data σ → Data σ)
  | .size o n => if d.numa ∧ d.lmem = o then some (sizeFun d n (n - o)) else none
  | .name (some o) (some n) => if d.name = some o then some (nameFun k n) else none
  | .info nm o n => (replaceFirst nm o n d.infos).map (infosFun k)
  | _ => none

/-- what `applyAttr` does on the topology infos -/
def tStep (T : Topo σ) : Attr σ → Option (Topo σ)
  | .info nm o n => (replaceFirst nm o n T.tinfos).map (fun l => { T with tinfos := l })
  | _ => none

theorem applyAttr_eq (T : Topo σ) (k : Key) (a : Attr σ) : applyAttr T k a =
    match getObj T k with
    | some d => (objStep d k a).map T.mapData
    | none => if k.1 = T.nbl then tStep T a else none := by
  unfold applyAttr
  cases getObj T k with
  | none => cases a <;> simp [tStep]
  | some d =>
    cases a with
    | size o n => simp only [objStep]; split <;> rfl
    | name o n => cases o <;> cases n <;> simp only [objStep] <;> first | rfl | (split <;> rfl)
    | info nm o n => simp only [objStep, Option.map_map]; rfl
    | unknown => rfl

theorem applyAttr_obj {T : Topo σ} {k : Key} {d : Data σ} (h : getObj T k = some d) (a : Attr σ) :
    applyAttr T k a = (objStep d k a).map T.mapData := by rw [applyAttr_eq, h]

theorem applyAttr_noobj {T : Topo σ} {k : Key} (h : getObj T k = none) (a : Attr σ) :
    applyAttr T k a = if k.1 = T.nbl then tStep T a else none := by rw [applyAttr_eq, h]

theorem objStep_some {d : Data σ} {k : Key} {a : Attr σ} {g : Data σ → Data σ} (h : objStep d k a = some g) :
    (∃ o n, a = .size o n ∧ d.numa = true ∧ d.lmem = o ∧ g = sizeFun d n (n - o)) ∨
    (∃ o n, a = .name (some o) (some n) ∧ d.name = some o ∧ g = nameFun k n) ∨
    (∃ nm o n l, a = .info nm o n ∧ replaceFirst nm o n d.infos = some l ∧ g = infosFun k l) := by
  cases a with
  | size o n =>
    simp only [objStep] at h
    split at h
    · rename_i hc; cases h; exact Or.inl ⟨o, n, rfl, hc.1, hc.2, rfl⟩
    · cases h
  | name o n =>
    cases o <;> cases n <;> simp only [objStep] at h <;> try cases h
    rename_i o n
    split at h
    · rename_i hc; cases h; exact Or.inr (Or.inl ⟨o, n, rfl, hc, rfl⟩)
    · cases h
  | info nm o n =>
    simp only [objStep, Option.map_eq_some_iff] at h
    obtain ⟨l, hl, rfl⟩ := h
    exact Or.inr (Or.inr ⟨nm, o, n, l, rfl, hl, rfl⟩)
  | unknown => cases h

theorem tStep_some {T T' : Topo σ} {a : Attr σ} (h : tStep T a = some T') :
    ∃ nm o n l, a = .info nm o n ∧ replaceFirst nm o n T.tinfos = some l ∧ T' = { T with tinfos := l } := by
  cases a with
  | info nm o n =>
    simp only [tStep, Option.map_eq_some_iff] at h
    obtain ⟨l, hl, rfl⟩ := h
    exact ⟨nm, o, n, l, rfl, hl, rfl⟩
  | _ => cases h

theorem objStep_key {d : Data σ} {k : Key} {a : Attr σ} {g : Data σ → Data σ} (h : objStep d k a = some g)
    (x : Data σ) : (g x).key = x.key := by
  rcases objStep_some h with ⟨o, n, rfl, -, -, rfl⟩ | ⟨o, n, rfl, -, rfl⟩ | ⟨nm, o, n, l, rfl, -, rfl⟩
  · exact sizeFun_key _ _ _ _
  · exact nameFun_key _ _ _
  · exact infosFun_key _ _ _

/-- a SIZE step reads key, ancs, numa, lmem of its target only -/
theorem objStep_size_congr {d d' : Data σ} {k : Key} {o n : Mem} (hk : d'.key = d.key) (ha : d'.ancs = d.ancs)
    (hn : d'.numa = d.numa) (hl : d'.lmem = d.lmem) : objStep d' k (.size o n) = objStep d k (.size o n) := by
  simp only [objStep, hn, hl, sizeFun_congr hk ha]

theorem objStep_name_congr {d d' : Data σ} {k : Key} {o n : Option σ} (h : d'.name = d.name) :
    objStep d' k (.name o n) = objStep d k (.name o n) := by
  cases o <;> cases n <;> simp only [objStep, h]

theorem objStep_info_congr {d d' : Data σ} {k : Key} {nm o n : σ} (h : d'.infos = d.infos) :
    objStep d' k (.info nm o n) = objStep d k (.info nm o n) := by
  simp only [objStep, h]

/-- a step of another kind, or on another object, does not change what a step reads -/
theorem objStep_frame {d d' : Data σ} {k k' : Key} {a a' : Attr σ} {g : Data σ → Data σ}
    (hk : d.key = k) (hk' : d'.key = k') (hi : k = k' → a.kind ≠ a'.kind) (h : objStep d k a = some g) :
    objStep (g d') k' a' = objStep d' k' a' := by
  have hne : a.kind = a'.kind → d'.key ≠ k := fun c e => hi (e.symm.trans hk') c
  rcases objStep_some h with ⟨o, n, rfl, -, -, rfl⟩ | ⟨o, n, rfl, -, rfl⟩ | ⟨nm, o, n, l, rfl, -, rfl⟩
  · cases a' with
    | size o' n' =>
      refine objStep_size_congr (sizeFun_key _ _ _ _) (sizeFun_ancs _ _ _ _) (sizeFun_numa _ _ _ _) ?_
      rw [sizeFun_lmem, if_neg (hk ▸ hne rfl)]
    | name o' n' => exact objStep_name_congr (sizeFun_name _ _ _ _)
    | info nm' o' n' => exact objStep_info_congr (sizeFun_infos _ _ _ _)
    | unknown => rfl
  · cases a' with
    | size o' n' =>
      exact objStep_size_congr (nameFun_key _ _ _) (nameFun_ancs _ _ _) (nameFun_numa _ _ _) (nameFun_lmem _ _ _)
    | name o' n' =>
      refine objStep_name_congr ?_
      rw [nameFun_name, if_neg (hne rfl)]
    | info nm' o' n' => exact objStep_info_congr (nameFun_infos _ _ _)
    | unknown => rfl
  · cases a' with
    | size o' n' =>
      exact objStep_size_congr (infosFun_key _ _ _) (infosFun_ancs _ _ _) (infosFun_numa _ _ _) (infosFun_lmem _ _ _)
    | name o' n' => exact objStep_name_congr (infosFun_name _ _ _)
    | info nm' o' n' =>
      refine objStep_info_congr ?_
      rw [infosFun_infos, if_neg (hne rfl)]
    | unknown => rfl

/-- steps of different kinds, or on different objects, commute pointwise -/
theorem objStep_comm {d1 d2 : Data σ} {k1 k2 : Key} {a1 a2 : Attr σ} {g1 g2 : Data σ → Data σ}
    (hk1 : d1.key = k1) (hk2 : d2.key = k2) (hi : k1 = k2 → a1.kind ≠ a2.kind)
    (h1 : objStep d1 k1 a1 = some g1) (h2 : objStep d2 k2 a2 = some g2) (x : Data σ) : g1 (g2 x) = g2 (g1 x) := by
  rcases objStep_some h1 with ⟨o1, n1, rfl, -, -, rfl⟩ | ⟨o1, n1, rfl, -, rfl⟩ | ⟨nm1, o1, n1, l1, rfl, -, rfl⟩ <;>
  rcases objStep_some h2 with ⟨o2, n2, rfl, -, -, rfl⟩ | ⟨o2, n2, rfl, -, rfl⟩ | ⟨nm2, o2, n2, l2, rfl, -, rfl⟩
  · exact sizeFun_sizeFun_comm _ _ _ _ _ _ (fun e => hi (hk1.symm.trans (e.trans hk2)) rfl) x
  · exact sizeFun_nameFun_comm _ _ _ _ _ _
  · exact sizeFun_infosFun_comm _ _ _ _ _ _
  · exact (sizeFun_nameFun_comm _ _ _ _ _ _).symm
  · exact nameFun_nameFun_comm _ _ _ _ (fun e => hi e rfl) x
  · exact nameFun_infosFun_comm _ _ _ _ _
  · exact (sizeFun_infosFun_comm _ _ _ _ _ _).symm
  · exact (nameFun_infosFun_comm _ _ _ _ _).symm
  · exact infosFun_infosFun_comm _ _ _ _ (fun e => hi e rfl) x

/-- two independent steps on objects can be exchanged -/
theorem objStep_swap {d1 d2 : Data σ} {k1 k2 : Key} {a1 a2 : Attr σ} {g1 g2 : Data σ → Data σ}
    (hk1 : d1.key = k1) (hk2 : d2.key = k2) (heq : k1 = k2 → d1 = d2) (hi : k1 = k2 → a1.sameSlot a2 = false)
    (h1 : objStep d1 k1 a1 = some g1) (h2 : objStep (g1 d2) k2 a2 = some g2) :
    ∃ g2' g1', objStep d2 k2 a2 = some g2' ∧ objStep (g2' d1) k1 a1 = some g1' ∧ ∀ x, g1' (g2' x) = g2 (g1 x) := by
  by_cases hK : k1 = k2 ∧ a1.kind = a2.kind
  · obtain ⟨hkk, hkind⟩ := hK
    have hs := hi hkk
    have hd := heq hkk
    subst hkk
    subst hd
    rcases objStep_some h1 with ⟨o1, n1, rfl, -, -, rfl⟩ | ⟨o1, n1, rfl, -, rfl⟩ | ⟨nm1, o1, n1, l1, rfl, hl1, rfl⟩
    · cases a2 <;> simp [Attr.kind, Attr.sameSlot] at hkind hs
    · cases a2 <;> simp [Attr.kind, Attr.sameSlot] at hkind hs
    · cases a2 with
      | info nm2 o2 n2 =>
        have hne : nm1 ≠ nm2 := by simpa [Attr.sameSlot] using hs
        have hinf : ∀ l, (infosFun k1 l d1).infos = l := fun l => by rw [infosFun_infos, if_pos hk1]
        simp only [objStep, hinf, Option.map_eq_some_iff] at h2
        obtain ⟨l12, hl12, rfl⟩ := h2
        obtain ⟨l2, e2, e1⟩ := replaceFirst_comm hne hl1 hl12
        refine ⟨infosFun k1 l2, infosFun k1 l12, ?_, ?_, ?_⟩
        · simp only [objStep, e2, Option.map_some]
        · simp only [objStep, hinf, e1, Option.map_some]
        · intro x; rw [infosFun_infosFun_same, infosFun_infosFun_same]
      | _ => simp [Attr.kind] at hkind
  · have hi' : k1 = k2 → a1.kind ≠ a2.kind := fun e c => hK ⟨e, c⟩
    have h2' : objStep d2 k2 a2 = some g2 := by rw [← objStep_frame hk1 hk2 hi' h1]; exact h2
    have h1' : objStep (g2 d1) k1 a1 = some g1 := by
      rw [objStep_frame hk2 hk1 (fun e c => hi' e.symm c.symm) h2']; exact h1
    exact ⟨g2, g1, h2', h1', objStep_comm hk1 hk2 hi' h1 h2'⟩

/-! ### two independent attribute changes can be exchanged -/

theorem applyAttr_swap {T T1 T2 : Topo σ} {k1 k2 : Key} {a1 a2 : Attr σ}
    (hi : (sameObj T.nbl k1 k2 && a1.sameSlot a2) = false)
    (h1 : applyAttr T k1 a1 = some T1) (h2 : applyAttr T1 k2 a2 = some T2) :
    ∃ T1', applyAttr T k2 a2 = some T1' ∧ applyAttr T1' k1 a1 = some T2 := by
  cases hd1 : getObj T k1 with
  | some d1 =>
    rw [applyAttr_obj hd1, Option.map_eq_some_iff] at h1
    obtain ⟨g1, hg1, rfl⟩ := h1
    have hd2' := getObj_mapData T g1 (objStep_key hg1) k2
    cases hd2 : getObj T k2 with
    | some d2 =>
      rw [hd2, Option.map_some] at hd2'
      rw [applyAttr_obj hd2', Option.map_eq_some_iff] at h2
      obtain ⟨g2, hg2, rfl⟩ := h2
      have hslot : k1 = k2 → a1.sameSlot a2 = false := by
        intro e; simpa [sameObj, e] using hi
      obtain ⟨g2', g1', e2, e1, hc⟩ := objStep_swap (getObj_some hd1).2 (getObj_some hd2).2
        (fun e => by subst e; rw [hd1] at hd2; exact Option.some.inj hd2) hslot hg1 hg2
      have hd1' : getObj (T.mapData g2') k1 = some (g2' d1) := by
        rw [getObj_mapData T g2' (objStep_key e2) k1, hd1]; rfl
      refine ⟨T.mapData g2', ?_, ?_⟩
      · rw [applyAttr_obj hd2, e2]; rfl
      · rw [applyAttr_obj hd1', e1, Option.map_some, Topo.mapData_mapData, Topo.mapData_mapData]
        have : g1' ∘ g2' = g2 ∘ g1 := funext hc
        rw [this]
    | none =>
      rw [hd2, Option.map_none] at hd2'
      rw [applyAttr_noobj hd2'] at h2
      split at h2
      · rename_i hn
        obtain ⟨nm, o, n, l, rfl, hl, rfl⟩ := tStep_some h2
        refine ⟨{ T with tinfos := l }, ?_, ?_⟩
        · rw [applyAttr_noobj hd2, if_pos (show k2.1 = T.nbl from hn)]
          exact congrArg (Option.map _) hl
        · have hd1' : getObj ({ T with tinfos := l } : Topo σ) k1 = some d1 := hd1
          rw [applyAttr_obj hd1', hg1]; rfl
      · cases h2
  | none =>
    rw [applyAttr_noobj hd1] at h1
    split at h1
    · rename_i hn1
      obtain ⟨nm1, o1, n1, l1, rfl, hl1, rfl⟩ := tStep_some h1
      cases hd2 : getObj T k2 with
      | some d2 =>
        have hd2' : getObj ({ T with tinfos := l1 } : Topo σ) k2 = some d2 := hd2
        rw [applyAttr_obj hd2', Option.map_eq_some_iff] at h2
        obtain ⟨g2, hg2, rfl⟩ := h2
        refine ⟨T.mapData g2, ?_, ?_⟩
        · rw [applyAttr_obj hd2, hg2]; rfl
        · have hd1' : getObj (T.mapData g2) k1 = none := by
            rw [getObj_mapData T g2 (objStep_key hg2) k1, hd1]; rfl
          rw [applyAttr_noobj hd1', if_pos (show k1.1 = (T.mapData g2).nbl from hn1)]
          exact congrArg (Option.map _) hl1
      | none =>
        have hd2' : getObj ({ T with tinfos := l1 } : Topo σ) k2 = none := hd2
        rw [applyAttr_noobj hd2'] at h2
        split at h2
        · rename_i hn2
          obtain ⟨nm2, o2, n2, l12, rfl, hl12, rfl⟩ := tStep_some h2
          have hn2' : k2.1 = T.nbl := hn2
          have hne : nm1 ≠ nm2 := by
            have : sameObj T.nbl k1 k2 = true := by simp [sameObj, hn1, hn2']
            simpa [this, Attr.sameSlot] using hi
          obtain ⟨l2, e2, e1⟩ := replaceFirst_comm hne hl1 hl12
          refine ⟨{ T with tinfos := l2 }, ?_, ?_⟩
          · rw [applyAttr_noobj hd2, if_pos hn2']
            exact congrArg (Option.map _) e2
          · have hd1' : getObj ({ T with tinfos := l2 } : Topo σ) k1 = none := hd1
            rw [applyAttr_noobj hd1', if_pos hn1]
            exact congrArg (Option.map _) e1
        · cases h2
    · cases h1

/-! ### entries -/

theorem Attr.sameSlot_oriented (r1 r2 : Bool) (a b : Attr σ) : (a.oriented r1).sameSlot (b.oriented r2) = a.sameSlot b := by
  cases r1 <;> cases r2 <;>
    simp only [Attr.oriented, if_true, Bool.false_eq_true, if_false, Attr.sameSlot_swap_left] <;>
    rw [Attr.sameSlot_comm, Attr.sameSlot_swap_left, Attr.sameSlot_comm]

/-- two independent entries that apply one after the other also apply in the other order, with the same result
    (each with its own REVERSE flag) -/
theorem applyOne_swap {r1 r2 : Bool} {T T1 T2 : Topo σ} {e1 e2 : Entry σ} (hi : Indep T.nbl e1 e2)
    (h1 : applyOne r1 T e1 = some T1) (h2 : applyOne r2 T1 e2 = some T2) :
    ∃ T1', applyOne r2 T e2 = some T1' ∧ applyOne r1 T1' e1 = some T2 := by
  cases e1 with
  | objAttr k1 a1 =>
    cases e2 with
    | objAttr k2 a2 =>
      simp only [applyOne] at h1 h2 ⊢
      refine applyAttr_swap ?_ h1 h2
      rw [Attr.sameSlot_oriented]
      simpa only [Indep, indep, Bool.not_eq_true'] using hi
    | tooComplex k => simp [applyOne] at h2
    | unknown => simp [applyOne] at h2
  | tooComplex k => simp [applyOne] at h1
  | unknown => simp [applyOne] at h1

/-- Option-valued form: applying two independent entries in either order gives the same result, failures included -/
theorem applyOne_comm {r1 r2 : Bool} {T : Topo σ} {e1 e2 : Entry σ} (hi : Indep T.nbl e1 e2) :
    (applyOne r1 T e1).bind (fun T1 => applyOne r2 T1 e2) = (applyOne r2 T e2).bind (fun T1 => applyOne r1 T1 e1) := by
  apply Option.ext
  intro X
  simp only [Option.bind_eq_some_iff]
  constructor
  · rintro ⟨T1, h1, h2⟩
    exact applyOne_swap hi h1 h2
  · rintro ⟨T1, h1, h2⟩
    exact applyOne_swap hi.symm h1 h2

/-- an entry that applies after a list it is independent of can be applied first instead -/
theorem applyAll_move_front {rv : Bool} {e : Entry σ} : ∀ {r : List (Entry σ)} {T T1 T2 : Topo σ}, (∀ x ∈ r, Indep T.nbl e x) →
    applyAll rv T r = some T1 → applyOne rv T1 e = some T2 → applyAll rv T (e :: r) = some T2
  | [], T, T1, T2, _, h1, h2 => by
    simp only [applyAll, Option.some.injEq] at h1
    subst h1
    simp [applyAll, h2]
  | x :: r, T, T1, T2, hi, h1, h2 => by
    simp only [applyAll, Option.bind_eq_some_iff] at h1
    obtain ⟨Tx, hx, hr⟩ := h1
    have hnbl := applyOne_nbl hx
    have ih := applyAll_move_front (T := Tx) (fun y hy => hnbl ▸ hi y (List.mem_cons_of_mem _ hy)) hr h2
    simp only [applyAll, Option.bind_eq_some_iff] at ih
    obtain ⟨Te, he, hr'⟩ := ih
    obtain ⟨T', he', hx'⟩ := applyOne_swap (hi x (List.mem_cons_self ..)).symm hx he
    simp only [applyAll, Option.bind_eq_some_iff]
    exact ⟨T', he', Te, hx', hr'⟩

/-- a successfully applied list whose entries address pairwise distinct attributes is undone by applying
    THE SAME list, in the same order, with the REVERSE flag flipped -/
theorem applyAll_same_order_inv {rev : Bool} {T T' : Topo σ} {d : List (Entry σ)} (hk : KeysInj T) (hn : InfoNamesDistinct T)
    (hd : DistinctSlots T.nbl d) (h : applyAll rev T d = some T') : applyAll (!rev) T' d = some T := by
  induction d generalizing T with
  | nil =>
    simp only [applyAll, Option.some.injEq] at h
    simp [applyAll, h]
  | cons e r ih =>
    simp only [applyAll, Option.bind_eq_some_iff] at h
    obtain ⟨T1, h1, h2⟩ := h
    have hp := applyOne_preserves hk hn h1
    have hnbl1 := applyOne_nbl h1
    have hd' := List.pairwise_cons.1 hd
    have hr := ih hp.1 hp.2 (by rw [hnbl1]; exact hd'.2) h2
    have he := applyOne_inv hk hn h1
    have hnbl' : T'.nbl = T.nbl := by rw [applyAll_nbl h2, hnbl1]
    exact applyAll_move_front (fun x hx => by rw [hnbl']; exact hd'.1 x hx) hr he

end Hw.Diff
