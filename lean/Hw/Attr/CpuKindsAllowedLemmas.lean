/-
  Hw.Attr.CpuKindsAllowedLemmas — facts about the topology-level model of Hw.Attr.CpuKindsAllowed (C15 with
  HWLOC_TOPOLOGY_FLAG_INCLUDE_DISALLOWED): the allowed cpuset stays inside the root cpuset, never enters the kinds,
  and histories with `allow` calls reduce to plain cpukinds histories.
-/
import Hw.Attr.CpuKindsAllowed
import Hw.Attr.CpuKindsLemmas
namespace Hw
namespace CpuKinds

theorem allow_st (t : TState) (cs : Option Nat) (fl : Nat) : (allow t cs fl).1.st = t.st := by
  unfold allow
  repeat' split
  all_goals rfl

theorem allow_inclDis (t : TState) (cs : Option Nat) (fl : Nat) : (allow t cs fl).1.inclDis = t.inclDis := by
  unfold allow
  repeat' split
  all_goals rfl

theorem allow_noflag (t : TState) (h : t.inclDis = false) (cs : Option Nat) (fl : Nat) :
    allow t cs fl = (t, .einval) := by
  simp [allow, h]

theorem tinit_wf (root : Nat) (d : Bool) : WfT (tinit root d) :=
  ⟨Nat.and_self _, fun _ => rfl, fun h => h⟩

theorem restrictKinds_root (strat : Strategy) (st : State) (r : Nat) : (restrictKinds strat st r).root = r := by
  unfold restrictKinds
  simp only []
  split <;> rfl

theorem allow_wf {t : TState} (W : WfT t) (cs : Option Nat) (fl : Nat) : WfT (allow t cs fl).1 := by
  unfold allow
  split
  · exact W
  · rename_i hd
    have hd' : t.inclDis = true := by simpa using hd
    split
    · split
      · exact W
      · exact ⟨Nat.and_self _, fun h => by simp [hd'] at h, fun h => h⟩
    · split
      · split
        · exact W
        · split
          · exact W
          · rename_i c hc
            refine ⟨?_, fun h => by simp [hd'] at h, fun _ => hc⟩
            show t.st.root &&& c &&& t.st.root = t.st.root &&& c
            rw [Nat.and_comm (t.st.root &&& c), ← Nat.and_assoc, Nat.and_self]
      · exact W

theorem sub_meets_root {a r s : Nat} (hsub : a &&& r = a) (h : a &&& s ≠ 0) : r &&& s ≠ 0 := by
  intro h0
  apply h
  rw [← hsub, Nat.and_assoc, h0, Nat.and_zero]

theorem restrictT_wf (strat : Strategy) {t : TState} (W : WfT t) (set : Nat) : WfT (restrictT strat t set).1 := by
  unfold restrictT
  split
  · exact W
  · rename_i hne
    refine ⟨?_, ?_, fun _ => hne⟩
    · show t.allowed &&& set &&& (restrictKinds strat t.st (t.st.root &&& set)).root = t.allowed &&& set
      rw [restrictKinds_root]
      calc t.allowed &&& set &&& (t.st.root &&& set)
          = (t.allowed &&& t.st.root) &&& (set &&& set) := by
            rw [Nat.and_assoc, Nat.and_assoc]
            congr 1
            rw [← Nat.and_assoc, Nat.and_comm set t.st.root, Nat.and_assoc]
        _ = t.allowed &&& set := by rw [W.sub, Nat.and_self]
    · intro hd
      show t.allowed &&& set = (restrictKinds strat t.st (t.st.root &&& set)).root
      rw [restrictKinds_root, W.eq hd]

theorem step_root_or (strat : Strategy) (st : State) (o : Op) (h : ∀ s, o ≠ .restrict s) :
    (step strat st o).root = st.root := by
  cases o with
  | restrict s => exact absurd rfl (h s)
  | register cs f i fl =>
    show (register strat st cs f i fl).1.root = st.root
    unfold register
    split
    · rfl
    · split
      · rfl
      · split
        · rfl
        · exact internalRegister_root st _ _ _ _
  | dup => rfl
  | refresh => rfl
  | xml =>
    show (xmlReload strat st).root = st.root
    unfold xmlReload
    simp only []
    have : ∀ (l : List Kind) (s : State),
        (l.foldl (fun s k => (internalRegister s k.cpuset k.forced k.infos 1).1) s).root = s.root := by
      intro l
      induction l with
      | nil => intro s; rfl
      | cons k l ih => intro s; rw [List.foldl_cons, ih, internalRegister_root]
    exact this _ _

theorem stepT_wf (strat : Strategy) {t : TState} (W : WfT t) (o : TOp) : WfT (stepT strat t o) := by
  cases o with
  | allow cs fl => exact allow_wf W cs fl
  | op o =>
    cases o with
    | restrict s => exact restrictT_wf strat W s
    | register cs f i fl =>
      have hr := step_root_or strat t.st (.register cs f i fl) (fun s => by simp)
      exact ⟨by show t.allowed &&& (step strat t.st _).root = _; rw [hr]; exact W.sub,
             fun h => by show t.allowed = (step strat t.st _).root; rw [hr]; exact W.eq h,
             fun h => by apply W.ne; rw [← hr]; exact h⟩
    | dup =>
      have hr := step_root_or strat t.st .dup (fun s => by simp)
      exact ⟨by show t.allowed &&& (step strat t.st _).root = _; rw [hr]; exact W.sub,
             fun h => by show t.allowed = (step strat t.st _).root; rw [hr]; exact W.eq h,
             fun h => by apply W.ne; rw [← hr]; exact h⟩
    | xml =>
      have hr := step_root_or strat t.st .xml (fun s => by simp)
      exact ⟨by show t.allowed &&& (step strat t.st _).root = _; rw [hr]; exact W.sub,
             fun h => by show t.allowed = (step strat t.st _).root; rw [hr]; exact W.eq h,
             fun h => by apply W.ne; rw [← hr]; exact h⟩
    | refresh =>
      have hr := step_root_or strat t.st .refresh (fun s => by simp)
      exact ⟨by show t.allowed &&& (step strat t.st _).root = _; rw [hr]; exact W.sub,
             fun h => by show t.allowed = (step strat t.st _).root; rw [hr]; exact W.eq h,
             fun h => by apply W.ne; rw [← hr]; exact h⟩

theorem foldT_wf (strat : Strategy) (h : List TOp) : ∀ {t : TState}, WfT t → WfT (h.foldl (stepT strat) t) := by
  induction h with
  | nil => intro t W; exact W
  | cons o r ih => intro t W; exact ih (stepT_wf strat W o)

theorem runT_wf (strat : Strategy) (root : Nat) (d : Bool) (h : List TOp) : WfT (runT strat root d h) :=
  foldT_wf strat h (tinit_wf root d)

/-- a restrict of the topology is, for the cpukinds, the restrict of `CpuKinds.restrict` (or a refused one) -/
theorem restrictT_st (strat : Strategy) {t : TState} (W : WfT t) (set : Nat) :
    (restrictT strat t set).1.st = (restrict strat t.st (if t.allowed &&& set = 0 then 0 else set)).1 := by
  unfold restrictT restrict
  by_cases h : t.allowed &&& set = 0
  · simp [h]
  · have hr : t.st.root &&& set ≠ 0 := sub_meets_root W.sub h
    simp [h, hr]

theorem foldT_eq (strat : Strategy) (h : List TOp) : ∀ {t : TState}, WfT t →
    (h.foldl (stepT strat) t).st = (traceT strat t h).foldl (step strat) t.st := by
  induction h with
  | nil => intro t _; rfl
  | cons o r ih =>
    intro t W
    have W' := stepT_wf strat W o
    cases o with
    | allow cs fl =>
      show (r.foldl (stepT strat) (stepT strat t (.allow cs fl))).st = _
      rw [ih W']
      show _ = (traceT strat (stepT strat t (.allow cs fl)) r).foldl (step strat) t.st
      congr 1
      exact allow_st t cs fl
    | op o =>
      cases o with
      | restrict s =>
        show (r.foldl (stepT strat) (stepT strat t (.op (.restrict s)))).st = _
        rw [ih W']
        show _ = (traceT strat (stepT strat t (.op (.restrict s))) r).foldl (step strat)
                  (step strat t.st (.restrict (if t.allowed &&& s = 0 then 0 else s)))
        congr 1
        exact restrictT_st strat W s
      | register cs f i fl =>
        show (r.foldl (stepT strat) (stepT strat t (.op (.register cs f i fl)))).st = _
        rw [ih W']; rfl
      | dup =>
        show (r.foldl (stepT strat) (stepT strat t (.op .dup))).st = _
        rw [ih W']; rfl
      | xml =>
        show (r.foldl (stepT strat) (stepT strat t (.op .xml))).st = _
        rw [ih W']; rfl
      | refresh =>
        show (r.foldl (stepT strat) (stepT strat t (.op .refresh))).st = _
        rw [ih W']; rfl

/-- the kinds array and root cpuset after a history with `allow` calls and INCLUDE_DISALLOWED are those of the
    plain history `traceT` -/
theorem runT_eq_run (strat : Strategy) (root : Nat) (d : Bool) (h : List TOp) :
    (runT strat root d h).st = run strat root (traceT strat (tinit root d) h) :=
  foldT_eq strat h (tinit_wf root d)

/-- what a successful restrict does to the kinds: every cpuset is cut by the NEW ROOT cpuset, emptied kinds are
    dropped (then the rest is re-ranked: same kinds up to order and efficiencies) -/
theorem restrictT_kinds (strat : Strategy) (t : TState) (set : Nat) (h : t.allowed &&& set ≠ 0) :
    SameCore ((t.st.kinds.map (fun k => { k with cpuset := k.cpuset &&& (t.st.root &&& set) })).filter
               (fun k => decide (k.cpuset ≠ 0)))
             (restrictT strat t set).1.st.kinds ∧
    (restrictT strat t set).1.st.root = t.st.root &&& set ∧
    (restrictT strat t set).1.allowed = t.allowed &&& set := by
  unfold restrictT
  rw [if_neg h]
  refine ⟨?_, restrictKinds_root _ _ _, rfl⟩
  show SameCore _ (restrictKinds strat t.st (t.st.root &&& set)).kinds
  unfold restrictKinds
  simp only []
  split
  · exact SameCore.refl _
  · exact rank_sameCore strat _

/-- PU by PU: after a successful restrict a PU is in some kind iff it was in some kind and is in the new root
    cpuset — whether or not it is allowed -/
theorem restrictT_covers (strat : Strategy) (t : TState) (set : Nat) (h : t.allowed &&& set ≠ 0) (p : Nat) :
    Covers (restrictT strat t set).1.st.kinds p ↔ Covers t.st.kinds p ∧ (t.st.root &&& set).testBit p = true := by
  have hS := (restrictT_kinds strat t set h).1
  have e1 : Covers (restrictT strat t set).1.st.kinds p ↔
      Covers ((t.st.kinds.map (fun k => { k with cpuset := k.cpuset &&& (t.st.root &&& set) })).filter
               (fun k => decide (k.cpuset ≠ 0))) p := by
    constructor
    · rintro ⟨k, hk, hp⟩
      obtain ⟨k', hk', hc⟩ := exists_core hS.symm (P := fun c => c.1.testBit p = true) ⟨k, hk, hp⟩
      exact ⟨k', hk', hc⟩
    · rintro ⟨k, hk, hp⟩
      obtain ⟨k', hk', hc⟩ := exists_core hS (P := fun c => c.1.testBit p = true) ⟨k, hk, hp⟩
      exact ⟨k', hk', hc⟩
  rw [e1]
  constructor
  · rintro ⟨k, hk, hp⟩
    simp only [List.mem_filter, List.mem_map] at hk
    obtain ⟨⟨k0, hk0, e⟩, _⟩ := hk
    subst e
    have hp' : (k0.cpuset &&& (t.st.root &&& set)).testBit p = true := hp
    rw [Nat.testBit_and, Bool.and_eq_true] at hp'
    exact ⟨⟨k0, hk0, hp'.1⟩, hp'.2⟩
  · rintro ⟨⟨k0, hk0, hp⟩, hr⟩
    have hb : (k0.cpuset &&& (t.st.root &&& set)).testBit p = true := by
      rw [Nat.testBit_and, hp, hr]; rfl
    refine ⟨{ k0 with cpuset := k0.cpuset &&& (t.st.root &&& set) }, ?_, hb⟩
    simp only [List.mem_filter, List.mem_map, decide_eq_true_eq]
    exact ⟨⟨k0, hk0, rfl⟩, (ne_zero_iff_bits _).mpr ⟨p, hb⟩⟩

end CpuKinds
end Hw
