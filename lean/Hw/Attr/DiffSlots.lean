/- Hw.Attr.DiffSlots — which attribute ("slot") a diff entry addresses, independence of entries, the
   well-formedness hypotheses the whole-tree statements need, and field-wise lemmas about the three update
   functions of Hw.Attr.Diff (sizeFun / nameFun / infosFun). -/
import Hw.Attr.DiffLemmas
namespace Hw.Diff
set_option linter.unusedSectionVars false
variable {σ : Type} [DecidableEq σ]

/-! ### slots -/

/-- same kind of attribute (and, for INFO, same info name).  `unknown` never applies: no slot. -/
def Attr.sameSlot : Attr σ → Attr σ → Bool
  | .size _ _, .size _ _ => true
  | .name _ _, .name _ _ => true
  | .info n1 _ _, .info n2 _ _ => decide (n1 = n2)
  | _, _ => false

/-- the two keys may address the same infos array / object: equal keys, or both of depth `nb_levels`
    (every key of that depth that names no object aliases the topology infos) -/
def sameObj (nbl : Int) (k1 k2 : Key) : Bool :=
  decide (k1 = k2) || (decide (k1.1 = nbl) && decide (k2.1 = nbl))

def indep (nbl : Int) : Entry σ → Entry σ → Bool
  | .objAttr k1 a1, .objAttr k2 a2 => !(sameObj nbl k1 k2 && a1.sameSlot a2)
  | _, _ => true

/-- two entries do not address the same attribute (entries that are not OBJ_ATTR never apply) -/
def Indep (nbl : Int) (e1 e2 : Entry σ) : Prop := indep nbl e1 e2 = true

instance (nbl : Int) (e1 e2 : Entry σ) : Decidable (Indep nbl e1 e2) := by unfold Indep; infer_instance

/-- the entries of the list address pairwise distinct attributes -/
def DistinctSlots (nbl : Int) (d : List (Entry σ)) : Prop := d.Pairwise (Indep nbl)

instance (nbl : Int) (d : List (Entry σ)) : Decidable (DistinctSlots nbl d) := by unfold DistinctSlots; infer_instance

theorem Attr.sameSlot_comm (a b : Attr σ) : a.sameSlot b = b.sameSlot a := by
  cases a <;> cases b <;> simp [Attr.sameSlot, eq_comm]

theorem Attr.sameSlot_swap_left (a b : Attr σ) : a.swap.sameSlot b = a.sameSlot b := by
  cases a <;> cases b <;> simp [Attr.sameSlot, Attr.swap]

theorem sameObj_comm (nbl : Int) (k1 k2 : Key) : sameObj nbl k1 k2 = sameObj nbl k2 k1 := by
  unfold sameObj
  rw [Bool.and_comm]
  congr 1
  exact decide_eq_decide.2 eq_comm

theorem Indep.symm {nbl : Int} {e1 e2 : Entry σ} (h : Indep nbl e1 e2) : Indep nbl e2 e1 := by
  cases e1 <;> cases e2 <;> simp_all [Indep, indep, sameObj_comm, Attr.sameSlot_comm]

/-! ### well-formedness hypotheses of the whole-tree statements (C01) -/

/-- no two objects of the tree carry the same `(depth, logical_index)` -/
def KeysNodup (T : Topo σ) : Prop := (T.flat.map Data.key).Nodup

/-- every object depth is below `nb_levels` (normal depths are `0 .. nb_levels-1`, special depths negative):
    the key `(nb_levels, 0)` of the topology infos names no object -/
def DepthsBelowNbl (T : Topo σ) : Prop := ∀ d ∈ T.flat, d.depth < T.nbl

instance (T : Topo σ) : Decidable (KeysNodup T) := by unfold KeysNodup; infer_instance
instance (T : Topo σ) : Decidable (KeysInj T) := by unfold KeysInj; infer_instance
instance (T : Topo σ) : Decidable (InfoNamesDistinct T) := by unfold InfoNamesDistinct; infer_instance
instance (T : Topo σ) : Decidable (DepthsBelowNbl T) := by unfold DepthsBelowNbl; infer_instance

theorem nodup_map_inj {α β : Type} (f : α → β) : ∀ {l : List α}, (l.map f).Nodup →
    ∀ x ∈ l, ∀ y ∈ l, f x = f y → x = y
  | [], _, x, hx, _, _, _ => by simp at hx
  | a :: l, h, x, hx, y, hy, hxy => by
    simp only [List.map_cons, List.nodup_cons, List.mem_map, not_exists, not_and] at h
    simp only [List.mem_cons] at hx hy
    rcases hx with rfl | hx <;> rcases hy with rfl | hy
    · rfl
    · exact absurd hxy.symm (h.1 y hy)
    · exact absurd hxy (h.1 x hx)
    · exact nodup_map_inj f h.2 x hx y hy hxy

theorem KeysNodup.keysInj {T : Topo σ} (h : KeysNodup T) : KeysInj T :=
  fun x hx y hy hxy => nodup_map_inj Data.key h x hx y hy hxy

/-! ### field-wise description of the update functions -/

theorem sizeFun_congr {t t' : Data σ} (hk : t.key = t'.key) (ha : t.ancs = t'.ancs) (n δ : Mem) :
    sizeFun t n δ = sizeFun t' n δ := by
  funext x; unfold sizeFun; rw [hk, ha]

section fields
local macro "sz_fld" : tactic => `(tactic| (unfold sizeFun; split; (· rfl); (· split <;> rfl)))
variable (t : Data σ) (n δ : Mem) (k : Key) (s : σ) (l : List (σ × σ)) (x : Data σ)

theorem sizeFun_depth : (sizeFun t n δ x).depth = x.depth := by sz_fld
theorem sizeFun_lidx : (sizeFun t n δ x).lidx = x.lidx := by sz_fld
theorem sizeFun_shape1 : (sizeFun t n δ x).shape1 = x.shape1 := by sz_fld
theorem sizeFun_shape2 : (sizeFun t n δ x).shape2 = x.shape2 := by sz_fld
theorem sizeFun_name : (sizeFun t n δ x).name = x.name := by sz_fld
theorem sizeFun_lmem : (sizeFun t n δ x).lmem = if x.key = t.key then n else x.lmem := by
  sz_fld
theorem sizeFun_tmem : (sizeFun t n δ x).tmem = x.tmem + (if x.key = t.key ∨ x.key ∈ t.ancs then δ else 0) := by
  unfold sizeFun
  by_cases h1 : x.key = t.key
  · simp only [h1, if_true, true_or]
  · by_cases h2 : x.key ∈ t.ancs
    · simp only [h1, h2, if_true, if_false, or_true]
    · simp only [h1, h2, if_false, or_self]
      exact (BitVec.add_zero _).symm

theorem nameFun_depth : (nameFun k s x).depth = x.depth := by unfold nameFun; split <;> rfl
theorem nameFun_lidx : (nameFun k s x).lidx = x.lidx := by unfold nameFun; split <;> rfl
theorem nameFun_ancs : (nameFun k s x).ancs = x.ancs := by unfold nameFun; split <;> rfl
theorem nameFun_numa : (nameFun k s x).numa = x.numa := by unfold nameFun; split <;> rfl
theorem nameFun_shape1 : (nameFun k s x).shape1 = x.shape1 := by unfold nameFun; split <;> rfl
theorem nameFun_shape2 : (nameFun k s x).shape2 = x.shape2 := by unfold nameFun; split <;> rfl
theorem nameFun_lmem : (nameFun k s x).lmem = x.lmem := by unfold nameFun; split <;> rfl
theorem nameFun_tmem : (nameFun k s x).tmem = x.tmem := by unfold nameFun; split <;> rfl
theorem nameFun_name : (nameFun k s x).name = if x.key = k then some s else x.name := by
  unfold nameFun; split <;> rfl

theorem infosFun_depth : (infosFun k l x).depth = x.depth := by unfold infosFun; split <;> rfl
theorem infosFun_lidx : (infosFun k l x).lidx = x.lidx := by unfold infosFun; split <;> rfl
theorem infosFun_ancs : (infosFun k l x).ancs = x.ancs := by unfold infosFun; split <;> rfl
theorem infosFun_numa : (infosFun k l x).numa = x.numa := by unfold infosFun; split <;> rfl
theorem infosFun_shape1 : (infosFun k l x).shape1 = x.shape1 := by unfold infosFun; split <;> rfl
theorem infosFun_shape2 : (infosFun k l x).shape2 = x.shape2 := by unfold infosFun; split <;> rfl
theorem infosFun_lmem : (infosFun k l x).lmem = x.lmem := by unfold infosFun; split <;> rfl
theorem infosFun_tmem : (infosFun k l x).tmem = x.tmem := by unfold infosFun; split <;> rfl
theorem infosFun_name : (infosFun k l x).name = x.name := by unfold infosFun; split <;> rfl
theorem infosFun_infos : (infosFun k l x).infos = if x.key = k then l else x.infos := by
  unfold infosFun; split <;> rfl

end fields

/-- extensionality of `Data` through its fields -/
theorem Data.ext' {a b : Data σ} (h1 : a.depth = b.depth) (h2 : a.lidx = b.lidx) (h3 : a.ancs = b.ancs)
    (h4 : a.numa = b.numa) (h5 : a.shape1 = b.shape1) (h6 : a.shape2 = b.shape2) (h7 : a.name = b.name)
    (h8 : a.infos = b.infos) (h9 : a.lmem = b.lmem) (h10 : a.tmem = b.tmem) : a = b := by
  cases a; cases b; simp_all

/-! ### the topology-level invariants of one step -/

theorem Topo.mapData_mapData (T : Topo σ) (f g : Data σ → Data σ) : (T.mapData f).mapData g = T.mapData (g ∘ f) := by
  simp only [Topo.mapData, mapData_comp]

@[simp] theorem Topo.mapData_nbl (T : Topo σ) (g : Data σ → Data σ) : (T.mapData g).nbl = T.nbl := rfl
@[simp] theorem Topo.mapData_tinfos (T : Topo σ) (g : Data σ → Data σ) : (T.mapData g).tinfos = T.tinfos := rfl

theorem applyAttr_nbl {T T' : Topo σ} {k : Key} {a : Attr σ} (h : applyAttr T k a = some T') : T'.nbl = T.nbl := by
  unfold applyAttr at h
  split at h
  · split at h
    · split at h <;> simp at h; subst h; rfl
    · split at h <;> simp at h; subst h; rfl
    · simp at h
    · simp only [Option.map_eq_some_iff] at h; obtain ⟨l, _, rfl⟩ := h; rfl
    · simp at h
  · split at h
    · split at h
      · simp only [Option.map_eq_some_iff] at h; obtain ⟨l, _, rfl⟩ := h; rfl
      · simp at h
    · simp at h

theorem applyOne_nbl {rev : Bool} {T T' : Topo σ} {e : Entry σ} (h : applyOne rev T e = some T') : T'.nbl = T.nbl := by
  cases e with
  | objAttr k a => exact applyAttr_nbl (by simpa [applyOne] using h)
  | tooComplex k => simp [applyOne] at h
  | unknown => simp [applyOne] at h

theorem applyAll_nbl {rev : Bool} : ∀ {d : List (Entry σ)} {T T' : Topo σ}, applyAll rev T d = some T' → T'.nbl = T.nbl
  | [], T, T', h => by simp [applyAll] at h; rw [h]
  | e :: r, T, T', h => by
    simp only [applyAll, Option.bind_eq_some_iff] at h
    obtain ⟨T1, h1, h2⟩ := h
    rw [applyAll_nbl h2, applyOne_nbl h1]

end Hw.Diff
