/-
  Hw.Attr.MemAttrsApi — API-level lemmas about the memattrs model: registration rules, enumeration,
  best-of queries, convenience attributes, local NUMA nodes, refresh at target level, dup.
-/
import Hw.Attr.MemAttrsLemmas
namespace Hw.MemAttrs

/-! ## register -/

/-- the flag word is acceptable: no unknown bit and exactly one of HIGHER_FIRST / LOWER_FIRST -/
def flagsOk (flags : Nat) : Bool := decide (flags < 8) && (flags.testBit 0 ^^ flags.testBit 1)

def nameUsed (tbl : Table) (name : String) : Bool := tbl.any (fun a => a.name == name)

theorem register_spec (tbl : Table) (name : String) (flags : Nat) :
    register tbl name flags =
      if flagsOk flags = false then (tbl, .error .EINVAL)
      else if nameUsed tbl name then (tbl, .error .EBUSY)
      else (tbl ++ [{ name, flags, conv := false, valid := true, targets := [] }], .ok tbl.length) := by
  unfold register flagsOk nameUsed
  by_cases h8 : flags / 8 ≠ 0
  · have : ¬ flags < 8 := by omega
    simp [h8, this]
  · have h8' : flags < 8 := by omega
    simp only [h8, if_false, h8', decide_true, Bool.true_and]
    cases flags.testBit 0 <;> cases flags.testBit 1 <;> simp

theorem nameUsed_iff (tbl : Table) (name : String) : nameUsed tbl name = true ↔ ∃ a ∈ tbl, a.name = name := by
  simp [nameUsed, List.any_eq_true]

/-! ## enumeration -/

theorem getTargets_spec (e : Env) (tbl : Table) (id : Nat) (a : Attr) (init : LocArg) (max : Nat)
    (ha : tbl[id]? = some a) (hc : a.conv = false) :
    getTargets e tbl id init 0 max false =
      (tbl.set id (ensureValid e a),
       .ok ((matchingTargets (ensureValid e a) init).length, (matchingTargets (ensureValid e a) init).take max)) := by
  simp [getTargets, ha, hc]

theorem getTargets_conv_spec (e : Env) (tbl : Table) (id : Nat) (a : Attr) (init : LocArg) (max : Nat)
    (ha : tbl[id]? = some a) (hc : a.conv = true) :
    getTargets e tbl id init 0 max false = (tbl, .ok ((convTargets e id).length, (convTargets e id).take max)) := by
  simp [getTargets, ha, hc]

/-- NULL array with a non-zero `*nr`, or non-zero flags: EINVAL, nothing changes -/
theorem getTargets_einval (e : Env) (tbl : Table) (id : Nat) (init : LocArg) (flags max : Nat) (arrNull : Bool)
    (h : flags ≠ 0 ∨ (max ≠ 0 ∧ arrNull = true) ∨ tbl[id]? = none) :
    getTargets e tbl id init flags max arrNull = (tbl, .error .EINVAL) := by
  unfold getTargets
  by_cases hf : flags ≠ 0
  · simp [hf]
  · by_cases hm : (max ≠ 0 ∧ arrNull = true)
    · simp [hf, hm.1, hm.2]
    · rcases h with h | h | h
      · exact absurd h hf
      · exact absurd h hm
      · have : (decide (max ≠ 0) && arrNull) = false := by
          cases arrNull <;> simp_all
        simp only [hf, if_false, this, h]; simp

theorem mem_matchingTargets (a : Attr) (init : LocArg) (g v : Nat) :
    (g, v) ∈ matchingTargets a init ↔
      ∃ t ∈ a.targets, t.gp = g ∧
        (if a.needInit then (if init = .null then v = 0 else targetValue true init t = some v)
         else v = t.noinit) := by
  unfold matchingTargets
  simp only [List.mem_filterMap]
  constructor
  · rintro ⟨t, ht, h⟩
    refine ⟨t, ht, ?_⟩
    by_cases hn : a.needInit = true
    · simp only [hn, if_true] at h ⊢
      by_cases hi : init = .null
      · simp only [hi, beq_self_eq_true, if_true, Option.some.injEq, Prod.mk.injEq] at h ⊢
        exact ⟨h.1, h.2.symm⟩
      · have hb : (init == LocArg.null) = false := by simpa using hi
        simp only [hb, hi, if_false, Bool.false_eq_true, Option.map_eq_some_iff, Prod.mk.injEq] at h ⊢
        obtain ⟨w, hw, h1, h2⟩ := h
        exact ⟨h1, by rw [hw, h2]⟩
    · simp only [hn, if_false, Bool.false_eq_true, Option.some.injEq, Prod.mk.injEq] at h ⊢
      exact ⟨h.1, h.2.symm⟩
  · rintro ⟨t, ht, hg, h⟩
    refine ⟨t, ht, ?_⟩
    by_cases hn : a.needInit = true
    · simp only [hn, if_true] at h ⊢
      by_cases hi : init = .null
      · simp only [hi, if_true] at h
        simp [hi, hg, h]
      · have hb : (init == LocArg.null) = false := by simpa using hi
        simp only [hi, if_false] at h
        simp [hb, h, hg]
    · simp only [hn, if_false, Bool.false_eq_true] at h ⊢
      simp [hg, h]

theorem getInitiators_spec (e : Env) (tbl : Table) (id : Nat) (a : Attr) (o : Obj) (t : Target) (max : Nat)
    (ha : tbl[id]? = some a) (hn : a.needInit = true)
    (ht : findTarget o.type o.gp o.os (ensureValid e a).targets = some t) :
    getInitiators e tbl id (some o) 0 max false =
      (tbl.set id (ensureValid e a), .ok (t.inits.length, t.inits.take max)) := by
  simp [getInitiators, ha, hn, ht]

theorem getInitiators_noInit (e : Env) (tbl : Table) (id : Nat) (a : Attr) (o : Obj) (max : Nat)
    (ha : tbl[id]? = some a) (hn : a.needInit = false) :
    getInitiators e tbl id (some o) 0 max false = (tbl, .ok (0, [])) := by
  simp [getInitiators, ha, hn]

theorem getInitiators_unknown (e : Env) (tbl : Table) (id : Nat) (a : Attr) (o : Obj) (max : Nat)
    (ha : tbl[id]? = some a) (hn : a.needInit = true)
    (ht : findTarget o.type o.gp o.os (ensureValid e a).targets = none) :
    (getInitiators e tbl id (some o) 0 max false).2 = .error .EINVAL := by
  simp [getInitiators, ha, hn, ht]

/-! ## best-of -/

/-- the (target, value) candidates `hwloc_memattr_get_best_target` folds over -/
def candTargets (a : Attr) (init : LocArg) : List (Nat × Nat) :=
  a.targets.filterMap (fun t => (targetValue a.needInit init t).map (fun v => (t.gp, v)))

theorem bestTarget_spec (e : Env) (tbl : Table) (id : Nat) (a : Attr) (init : LocArg)
    (ha : tbl[id]? = some a) (hc : a.conv = false) :
    bestTarget e tbl id init 0 =
      (tbl.set id (ensureValid e a),
       match bestOf (ensureValid e a).higher (candTargets (ensureValid e a) init) with
       | some r => .ok r
       | none => .error .ENOENT) := by
  unfold bestTarget candTargets
  simp only [ne_eq, not_true_eq_false, if_false, ha, hc, Bool.false_eq_true]
  split <;> simp_all

theorem bestTarget_conv_spec (e : Env) (tbl : Table) (id : Nat) (a : Attr) (init : LocArg)
    (ha : tbl[id]? = some a) (hc : a.conv = true) :
    bestTarget e tbl id init 0 =
      (tbl, match bestOf a.higher (convTargets e id) with
            | some r => .ok r
            | none => .error .ENOENT) := by
  unfold bestTarget
  simp only [ne_eq, not_true_eq_false, if_false, ha, hc, if_true]
  split <;> simp_all

theorem bestInitiator_spec (e : Env) (tbl : Table) (id : Nat) (a : Attr) (o : Obj) (t : Target)
    (ha : tbl[id]? = some a) (hn : a.needInit = true)
    (ht : findTarget o.type o.gp o.os (ensureValid e a).targets = some t) :
    bestInitiator e tbl id (some o) 0 =
      (tbl.set id (ensureValid e a),
       match bestOf (ensureValid e a).higher (t.inits.map (fun i => (i.loc, i.value))) with
       | some r => .ok r
       | none => .error .ENOENT) := by
  unfold bestInitiator
  simp only [ne_eq, not_true_eq_false, if_false, ha, hn, Bool.not_true, Bool.false_eq_true, ht]
  split <;> simp_all

/-! ## convenience attributes -/

theorem setValue_conv (e : Env) (tbl : Table) (id : Nat) (a : Attr) (tgt : Option Obj) (init : LocArg)
    (flags v : Nat) (ha : tbl[id]? = some a) (hc : a.conv = true) :
    setValue e tbl id tgt init flags v = (tbl, .error .EINVAL) := by
  unfold setValue
  cases tgt with
  | none => rfl
  | some o =>
    simp only [ha, hc, if_true]
    split
    · rfl
    · split
      · rfl
      · split <;> rfl

theorem getValue_conv (e : Env) (tbl : Table) (id : Nat) (a : Attr) (o : Obj) (init : LocArg)
    (ha : tbl[id]? = some a) (hc : a.conv = true) :
    getValue e tbl id (some o) init 0 = (tbl, convValue e id o) := by
  simp [getValue, ha, hc]

theorem convValue_capacity (e : Env) (o : Obj) (h : o.type = e.numaType) : convValue e 0 o = .ok o.mem := by
  simp [convValue, h]

theorem convValue_capacity_not_numa (e : Env) (o : Obj) (h : o.type ≠ e.numaType) :
    convValue e 0 o = .error .EINVAL := by
  simp [convValue, h]

theorem convValue_locality (e : Env) (o : Obj) (c : Nat) (h : o.cpuset = some c) :
    convValue e 1 o = .ok (weight c) := by
  simp [convValue, h]

theorem convValue_locality_nocpuset (e : Env) (o : Obj) (h : o.cpuset = none) :
    convValue e 1 o = .error .EINVAL := by
  simp [convValue, h]

/-- name, flag word and convenience bit of every attribute are never changed by `set_value` -/
theorem setValue_static (e : Env) (tbl : Table) (id : Nat) (tgt : Option Obj) (init : LocArg) (flags v i : Nat) :
    ((setValue e tbl id tgt init flags v).1[i]?).map (fun a => (a.name, a.flags, a.conv)) =
      (tbl[i]?).map (fun a => (a.name, a.flags, a.conv)) := by
  unfold setValue
  cases tgt with
  | none => rfl
  | some o =>
    simp only
    split
    · rfl
    · split
      · rfl
      · cases ha : tbl[id]? with
        | none => rfl
        | some a =>
          simp only
          split
          · rfl
          · split
            · rfl
            · simp only
              by_cases hi : i = id
              · subst hi
                have hlt : i < tbl.length := by
                  rcases Nat.lt_or_ge i tbl.length with h | h
                  · exact h
                  · rw [List.getElem?_eq_none h] at ha; cases ha
                rw [List.getElem?_set_self hlt, ha]
                simp only [Option.map_some, setAttr, if_true]
                unfold ensureValid refreshAttr
                split <;> rfl
              · rw [List.getElem?_set_ne (Ne.symm hi)]

theorem register_static (tbl : Table) (name : String) (flags i : Nat) (hi : i < tbl.length) :
    (register tbl name flags).1[i]? = tbl[i]? := by
  rw [register_spec]
  split
  · rfl
  · split
    · rfl
    · simp only; rw [List.getElem?_append_left hi]

/-! ## local NUMA nodes -/

theorem localNodes_cpuset_spec (e : Env) (cs flags max : Nat) (h8 : flags < 8) :
    localNodes e (.cpuset cs) flags max false =
      .ok ((e.nodes.filter (matchLocal flags cs)).length, (e.nodes.filter (matchLocal flags cs)).take max) := by
  have : flags / 8 = 0 := by omega
  simp [localNodes, this]

theorem localNodes_null_spec (e : Env) (flags max : Nat) (h8 : flags < 8) :
    localNodes e .null flags max false =
      if flags.testBit 2 then .ok (e.nodes.length, e.nodes.take max) else .error .EINVAL := by
  have : flags / 8 = 0 := by omega
  cases hb : flags.testBit 2 <;> simp [localNodes, this, hb]

theorem localNodes_badflags (e : Env) (loc : LocalArg) (flags max : Nat) (an : Bool) (h8 : 8 ≤ flags) :
    localNodes e loc flags max an = .error .EINVAL := by
  have : flags / 8 ≠ 0 := by omega
  simp [localNodes, this]

theorem matchLocal_iff (flags cs : Nat) (n : Obj) :
    matchLocal flags cs n = true ↔
      flags.testBit 2 = true ∨ (flags.testBit 0 = true ∧ subset cs (ocs n) = true) ∨
      (flags.testBit 1 = true ∧ subset (ocs n) cs = true) ∨ ocs n = cs := by
  simp [matchLocal, ocs, or_assoc]

/-! ## refresh, target level -/

theorem mem_refreshAttr (e : Env) (a : Attr) (t' : Target) :
    t' ∈ (refreshAttr e a).targets ↔ ∃ t ∈ a.targets, refreshTarget e a.needInit t = some t' := by
  simp [refreshAttr, List.mem_filterMap]

theorem refreshAttr_static (e : Env) (a : Attr) :
    (refreshAttr e a).name = a.name ∧ (refreshAttr e a).flags = a.flags ∧ (refreshAttr e a).conv = a.conv ∧
    (refreshAttr e a).valid = true := ⟨rfl, rfl, rfl, rfl⟩

theorem refreshInit_none_iff (e : Env) (i : Init) :
    refreshInit e i = none ↔
      match i.loc with
      | .cpuset c => c &&& e.root = 0
      | .obj t g => e.hasObj t g = false := by
  unfold refreshInit
  cases i.loc with
  | cpuset c => simp
  | obj t g => simp

theorem refreshTarget_none_iff (e : Env) (ni : Bool) (t : Target) :
    refreshTarget e ni t = none ↔
      e.hasObj t.type t.gp = false ∨ (ni = true ∧ ∀ i ∈ t.inits, refreshInit e i = none) := by
  unfold refreshTarget
  by_cases ho : e.hasObj t.type t.gp = true
  · simp only [ho, if_true, Bool.true_eq_false, false_or]
    cases ni with
    | false => simp
    | true =>
      simp only [if_true, true_and]
      by_cases hem : (List.filterMap (refreshInit e) t.inits).isEmpty = true
      · simp only [hem, if_true, true_iff]
        intro i hi
        cases hr : refreshInit e i with
        | none => rfl
        | some i' =>
          have : i' ∈ List.filterMap (refreshInit e) t.inits := List.mem_filterMap.mpr ⟨i, hi, hr⟩
          rw [List.isEmpty_iff] at hem
          rw [hem] at this; cases this
      · simp only [hem, if_false, Bool.false_eq_true, reduceCtorEq, false_iff]
        intro hall
        apply hem
        rw [List.isEmpty_iff, List.filterMap_eq_nil_iff]
        exact hall
  · have ho' : e.hasObj t.type t.gp = false := by simpa using ho
    simp [ho']

theorem refreshTarget_some (e : Env) (ni : Bool) (t t' : Target) (h : refreshTarget e ni t = some t') :
    t' = if ni then { t with inits := t.inits.filterMap (refreshInit e) } else t := by
  unfold refreshTarget at h
  by_cases ho : e.hasObj t.type t.gp = true
  · simp only [ho, if_true] at h
    cases ni with
    | false => simpa using h.symm
    | true =>
      simp only [if_true] at h ⊢
      split at h
      · cases h
      · exact (Option.some.inj h).symm
  · simp [ho] at h

/-- a target that survives the refresh answers every still-valid query exactly as before -/
theorem targetValue_refresh (e : Env) (ni : Bool) (t t' : Target) (init : LocArg)
    (h : refreshTarget e ni t = some t') (hq : ∀ q, toInternal init = some q → validQuery e q) :
    targetValue ni init t' = targetValue ni init t := by
  have ht := refreshTarget_some e ni t t' h
  cases ni with
  | false => simp only [Bool.false_eq_true, if_false] at ht; rw [ht]
  | true =>
    simp only [if_true] at ht
    subst ht
    unfold targetValue
    simp only [if_true]
    cases hi : toInternal init with
    | none => rfl
    | some q => exact findInit_refresh e t.inits q (hq q hi)

/-! ## dup -/

theorem dup_getElem (tbl : Table) (i : Nat) :
    (dup tbl)[i]? = (tbl[i]?).map (fun a => { a with valid := false }) := by
  simp [dup]

end Hw.MemAttrs
